"""Rule layer: context, obligations, violations, known findings, evidence (DESIGN.md 2.3)."""
import glob
import json
import os
import re
import sys
import time

from . import facts, mir, sym

VERIF = facts.VERIF
KNOWN = os.path.join(VERIF, "known_findings.json")


class Violation:
    def __init__(self, rule, fn, event, detail):
        self.rule, self.fn, self.event, self.detail = rule, fn, event, detail

    def key(self):
        return (self.rule, self.fn, self.event)


class Ctx:
    """One check run for one property."""

    def __init__(self, pid, tier="quick"):
        self.pid = pid
        self.tier = tier
        self.t0 = time.time()
        self.obligations = 0
        self.discharged = 0
        self.violations = []
        self.samples = []
        self.rules = {}  # rule id -> [n obligations, n ok]
        self.functions = set()
        self.notes = []
        self.floors = []
        self._files = None
        self._crates = {}
        self._bodies = {}
        self._sym = {}
        self._tpl = None
        self.seed = int(os.environ.get("VERIF_SEED", "0") or 0)

    # ------------------------------------------------------------------ facts
    def _fact_files(self, run="r1"):
        if self._files is None:
            self._files = {}
        if run not in self._files:
            d = facts.facts_dir(run)
            self._files[run] = sorted(glob.glob(os.path.join(d, "*.json")))
        return self._files[run]

    def crates(self, name, run="r1"):
        """All fact files (parsed) of crate `name` in `run`."""
        key = (run, name)
        if key not in self._crates:
            out = []
            for f in self._fact_files(run):
                base = os.path.basename(f)
                if re.match(re.escape(name) + r"-[0-9a-f]+-\d+\.json$", base):
                    with open(f) as fh:
                        c = json.load(fh)
                    c["_file"] = f
                    out.append(c)
            self._crates[key] = out
        return self._crates[key]

    def core(self, cfg="on", run="r1"):
        """darling_core facts: cfg 'on' = feature suggestions, 'off' = no features (lib builds)."""
        want = ["strsim", "suggestions"] if cfg == "on" else []
        if cfg == "diag":
            want = ["diagnostics"]
        for c in self.crates("darling_core", run):
            if not c["test"] and sorted(c["features"]) == want:
                return c
        self.anchor_missing("facts", "darling_core[%s]" % cfg, "no fact file for this configuration")
        return None

    def bodies(self, crate):
        k = crate["_file"]
        if k not in self._bodies:
            d = {}
            for raw in crate["bodies"]:
                d.setdefault(raw["key"], []).append(mir.Body(raw, crate))
            self._bodies[k] = d
        return self._bodies[k]

    def all_bodies(self, crate):
        for lst in self.bodies(crate).values():
            for b in lst:
                yield b

    def fn(self, key, cfg="on", rule="anchor", required=True):
        c = self.core(cfg)
        if c is None:
            return None
        lst = self.bodies(c).get(key)
        if not lst:
            if required:
                self.anchor_missing(rule, key, "function not found in darling_core[%s]" % cfg)
            return None
        self.functions.add(key)
        return lst[0]

    def fns_matching(self, pattern, cfg="on"):
        c = self.core(cfg)
        rx = re.compile(pattern)
        out = []
        for k, lst in self.bodies(c).items():
            if rx.search(k):
                out.extend(lst)
        return out

    def closures_of(self, body):
        """Closure bodies whose owner fn is `body`."""
        out = []
        for k, lst in self.bodies(body.crate).items():
            for b in lst:
                if b.kind == "Closure" and b.key.startswith(body.key + "::{closure") and "::{closure" not in b.key[len(body.key) + 3:]:
                    out.append(b)
        return out

    def test_crates(self, run="r1"):
        """Fact files of the repo's integration tests and examples (Level B population)."""
        out = []
        for f in self._fact_files(run):
            base = os.path.basename(f)
            name = base.rsplit("-", 2)[0]
            if name in ("darling", "darling_core", "darling_macro"):
                continue
            out.extend(self.crates(name, run))
        return out

    def sym(self, body):
        k = id(body)
        if k not in self._sym:
            s = sym.Sym(body)
            self._sym[k] = (s, sym.PathCond(body, s))
        return self._sym[k]

    # ------------------------------------------------------------------ obligations
    def ob(self, rule, fn, event, ok, detail="", sample=None):
        self.obligations += 1
        r = self.rules.setdefault(rule, [0, 0])
        r[0] += 1
        if fn:
            self.functions.add(fn)
        if ok:
            self.discharged += 1
            r[1] += 1
            if sample is not None and len(self.samples) < 40:
                self.samples.append(sample)
            elif len(self.samples) < 12:
                self.samples.append({"rule": rule, "fn": fn, "event": event, "ok": True, "detail": detail[:300]})
        else:
            self.violations.append(Violation(rule, fn, event, detail))
        return ok

    def anchor_missing(self, rule, fn, detail):
        self.obligations += 1
        self.rules.setdefault(rule, [0, 0])[0] += 1
        self.violations.append(Violation(rule, fn, "ANCHOR-MISSING", detail))

    def floor(self, rule, what, n, minimum):
        """Fail closed when a rule family matched fewer instances than were confirmed by hand."""
        self.floors.append({"rule": rule, "what": what, "found": n, "floor": minimum})
        self.ob(rule + ".floor", "", what, n >= minimum, "found %d instances of %s, floor %d" % (n, what, minimum))

    # ------------------------------------------------------------------ path rules
    def conds(self, body, blk, relevant=None):
        s, pc = self.sym(body)
        return pc.conditions(blk, relevant)

    def atoms_str(self, body, cs):
        s, _ = self.sym(body)
        return sorted(sym.atom_str(e, v, s) for e, v in cs)

    def pc_strs(self, body, blk, own=False):
        """Path condition of block as a list of disjuncts, each a set of atom strings.  A private
        helper with a single call site that hands its own parameters on unchanged (an extracted
        method) also stands under the path condition of that call site."""
        s, pc = self.sym(body)
        own_ = [set(sym.atom_str(e, v, s) for e, v in cs) for cs in pc.conditions(blk)]
        outer = None if own else self._caller_conditions(body)
        if not outer:
            return own_
        out = []
        for o in outer:
            for d in own_:
                both = o | d
                # contradictory boolean atoms => infeasible combination
                if any(a.endswith("=True") and (a[:-4] + "False") in both for a in both):
                    continue
                if both not in out:
                    out.append(both)
        return out

    def _caller_conditions(self, body, depth=0):
        key = body.key
        cache = self.__dict__.setdefault("_callercond", {})
        if key in cache:
            return cache[key]
        cache[key] = None
        if body.kind == "Closure":
            res = self._closure_conditions(body)
            cache[key] = res
            return res
        if depth > 2 or body.kind not in ("Fn", "AssocFn") or not str(body.raw.get("vis", "")).startswith("Restricted"):
            return None
        sites = []
        for c in self.all_bodies(body.crate):
            if c.key == key or c.raw.get("test_body"):
                continue
            for blk, t in c.calls():
                if mir.callee_of(t) == key:
                    sites.append((c, blk, t))
        if len(sites) != 1:
            return None
        c, blk, t = sites[0]
        if c.kind == "Closure" or len(t["args"]) != body.arg_count:
            return None
        s_b, _ = self.sym(body)
        same, differ = set(), set()
        for i, a in enumerate(t["args"]):
            want = sym.show(s_b.local(i + 1), s_b)
            (same if self.expr(c, a) == want else differ).add(want)
        # the receiver must be handed on unchanged (what the helper calls `self.x` is the caller's
        # `self.x`); other parameters may be values computed by the caller – atoms of the caller
        # that speak about a parameter name the helper uses for something else are left out
        if "self" in differ or (differ and "self" not in same and sym.show(s_b.local(1), s_b) == "self"):
            return None
        self.__dict__.setdefault("_transparent_caller", set()).add(key)
        self.__dict__.setdefault("_caller_body", {})[key] = c
        res = self.pc_strs(c, blk)
        if differ:
            clash = re.compile(r"\b(%s)\b" % "|".join(re.escape(x) for x in differ))
            res = [{a_ for a_ in d if not clash.search(a_)} for d in res]
        res = [set(d) for d in res if d] or None
        cache[key] = res
        return res

    def caller_of(self, body):
        """the function a private single-call-site helper was cut out of (None otherwise)"""
        if self.has_transparent_caller(body):
            return self.__dict__.get("_caller_body", {}).get(body.key)
        return None

    def has_transparent_caller(self, body):
        """a private helper with one call site that hands its own parameters on unchanged"""
        self._caller_conditions(body)
        return body.key in self.__dict__.get("_transparent_caller", set())

    # closure handed to a lazy combinator: the closure body runs only in one state of the receiver
    LAZY = [
        (r"^core::option::Option::<T>::(unwrap_or_else|or_else|ok_or_else|get_or_insert_with)$", 1, "is_some(%s)=False"),
        (r"^core::option::Option::<T>::(map_or_else)$", 1, "is_some(%s)=False"),
        (r"^core::option::Option::<T>::(map_or_else)$", 2, "is_some(%s)=True"),
        (r"^core::option::Option::<T>::(map|and_then|filter|is_some_and|inspect|map_or)$", -1, "is_some(%s)=True"),
        (r"^core::result::Result::<T, E>::(map_err|or_else|unwrap_or_else|inspect_err)$", 1, "discr(%s)=Err"),
        (r"^core::result::Result::<T, E>::(map_or_else)$", 1, "discr(%s)=Err"),
        (r"^core::result::Result::<T, E>::(map_or_else)$", 2, "discr(%s)=Ok"),
        (r"^core::result::Result::<T, E>::(map|and_then|inspect|is_ok_and|map_or)$", -1, "discr(%s)=Ok"),
    ]

    def _closure_conditions(self, body):
        """Conditions under which a closure body runs: the path condition of the place that builds
        it, plus – when it is handed straight to a lazy Option/Result combinator – the state of
        the receiver in which that combinator calls it."""
        parent = None
        for c in self.all_bodies(body.crate):
            if c.key != body.key and body.key in self.closure_sites(c):
                parent = c
                break
        if parent is None:
            return None
        blk = self.closure_sites(parent)[body.key]
        local = None
        for b2, i, st in parent.stmts():
            if b2 == blk and st["k"] == "assign" and st["r"]["k"] == "aggregate" and st["r"].get("closure") == body.key:
                local = st["p"]["local"]
        res = [set(d) for d in self.pc_strs(parent, blk)]
        t = parent.term(blk)
        if t and t.get("k") == "call" and local is not None:
            callee = mir.callee_of(t) or ""
            for rx, pos, fmt in self.LAZY:
                if not re.search(rx, callee):
                    continue
                args = t["args"]
                idx = pos if pos >= 0 else len(args) - 1
                if idx < len(args) and args[idx].get("p", {}).get("local") == local and not args[idx]["p"].get("proj"):
                    atom = fmt % self.expr(parent, args[0])
                    alts = None
                    if fmt.startswith("is_some("):
                        # `x.filter(p).map(..)`, `a.zip(b).map(..)`: the receiver state read through the combinator
                        s_p, _ = self.sym(parent)
                        recv = sym.strip_transparent(s_p.operand(args[0]))
                        at = (("call", "core::option::Option::<T>::is_some", (recv,), ()), fmt.endswith("=True"))
                        alts = sym.predicate_alternatives(parent.crate, at)
                    if alts:
                        res = [d | {sym.atom_str(sym.normalise_atom(x, y)[0] if isinstance(y, bool) else x, sym.normalise_atom(x, y)[1] if isinstance(y, bool) else y, s_p) for (x, y) in alt} for d in (res or [set()]) for alt in alts]
                    else:
                        res = [d | {atom} for d in (res or [set()])]
        return [d for d in res if d] or None

    @staticmethod
    def _sat(disjunct, pattern):
        """A disjunct (set of 'expr=value' strings) contains an atom matching regex `pattern`."""
        if isinstance(pattern, tuple):
            # ("ne", expr regex, value): the path excludes `value` for the expression, whether the
            # code says so with a wildcard arm (not-in), by naming another variant, or by `!=`
            kind, erx, val = pattern
            rx = re.compile(erx)
            for a in disjunct:
                lhs, _, rhs = a.rpartition("=")
                if not rx.search(lhs):
                    continue
                if rhs.startswith("('not-in'"):
                    import ast
                    try:
                        if val in ast.literal_eval(rhs)[1]:
                            return True
                    except (ValueError, SyntaxError):
                        pass
                elif rhs not in ("True", "False") and rhs != str(val):
                    return True
            return False
        rx = re.compile(pattern)
        return any(rx.search(a) for a in disjunct)

    def requires(self, rule, body, blk, event, atoms, alt=None):
        """Every path to `blk` satisfies all of `atoms` (regexes over 'expr=value' atom strings).
        `alt`: list of alternative atom lists; each path may satisfy any one of them."""
        disj = self.pc_strs(body, blk)
        wants = [list(atoms)] + [list(a) for a in (alt or [])]
        ok = bool(disj) and all(self._implies_some(d, wants) for d in disj)
        self.ob(rule, body.key, event, ok,
                "requires %s; found %s" % (" | ".join(" & ".join(str(x) for x in w) for w in wants),
                                            " | ".join(" & ".join(sorted(d)) or "true" for d in disj) or "unreachable"))
        return ok

    def _implies_some(self, d, wants):
        """disjunct d (a conjunction of atoms) implies w1 ∨ w2 ∨ …: directly, or by case analysis
        on the boolean atoms the alternatives mention and d is silent about (a path condition
        simplified to `¬a ∧ ¬c` implies `(¬a ∧ ¬b) ∨ (¬a ∧ b ∧ ¬c)`)"""
        if any(all(self._sat(d, a) for a in w) for w in wants):
            return True
        if len(wants) < 2:
            return False
        bases = []
        for w in wants:
            for a in w:
                if isinstance(a, str) and (a.endswith("=True") or a.endswith("=False") or a.endswith("=True$") or a.endswith("=False$")):
                    base = re.sub(r"=(True|False)\$?$", "", a)
                    if base not in bases and not self._sat(d, base + "=True") and not self._sat(d, base + "=False"):
                        bases.append(base)
        if not bases or len(bases) > 4:
            return False

        def sat(a, assign):
            if self._sat(d, a):
                return True
            if isinstance(a, str):
                m = re.search(r"=(True|False)\$?$", a)
                if m:
                    base = a[:m.start()]
                    if base in assign:
                        return assign[base] == (m.group(1) == "True")
            return False

        import itertools
        for vals in itertools.product([True, False], repeat=len(bases)):
            assign = dict(zip(bases, vals))
            if not any(all(sat(a, assign) for a in w) for w in wants):
                return False
        return True

    def pc_entails_call(self, body, blk, callee, args, value):
        """On every path to `blk` the bool fn `callee(args)` (a loop-free fn of the crate, any
        visibility: it is read by its definition) has `value`: the path says so itself, or it
        contradicts every way for the fn to return the opposite."""
        s, pc = self.sym(body)
        e = ("call", callee, tuple(args), ())
        alts = sym.predicate_alternatives(body.crate, (e, not value), any_vis=True)
        if alts is not None:
            # read the alternatives down to atoms over fields (`x.filter(p).is_some()` etc.)
            dnf = set()
            for alt in alts:
                cur = frozenset()
                for (x, y) in alt:
                    a_ = sym.normalise_atom(x, y) if isinstance(y, bool) else (x, y)
                    cur = sym._add_atom(cur, a_) if cur is not None else None
                if cur is not None:
                    dnf.add(cur)
            alts = [tuple(d) for d in self._expand_atoms(body, dnf)]
        res = []
        for d in pc.conditions(blk):
            direct = any(x[0] == "call" and x[1] == callee and tuple(x[2]) == tuple(args) and v == value for (x, v) in d)
            if direct:
                res.append(True)
                continue
            if alts is None:
                res.append(False)
                continue
            res.append(all(any(x2 == x1 and sym._contradict(v1, v2) for (x1, v1) in alt for (x2, v2) in d) for alt in alts))
        return bool(res) and all(res)

    def strs_entail_call(self, body, pcs, callee, args, value):
        """like pc_entails_call for a condition given as a list of disjuncts of atom strings"""
        s, _ = self.sym(body)
        e = ("call", callee, tuple(args), ())
        direct = "%s=%s" % (sym.show(e, s), value)
        alts = sym.predicate_alternatives(body.crate, (e, not value), any_vis=True)
        if alts is not None:
            dnf = set()
            for alt in alts:
                cur = frozenset()
                for (x, y) in alt:
                    a_ = sym.normalise_atom(x, y) if isinstance(y, bool) else (x, y)
                    cur = sym._add_atom(cur, a_) if cur is not None else None
                if cur is not None:
                    dnf.add(cur)
            alts = [[(sym.show(x, s), y) for (x, y) in d] for d in self._expand_atoms(body, dnf)]
        res = []
        for d in pcs or []:
            if direct in d:
                res.append(True)
                continue
            if alts is None:
                res.append(False)
                continue
            have = {}
            for a_ in d:
                l, _, r = a_.rpartition("=")
                have.setdefault(l, []).append(r)

            def contra(x, y):
                for r in have.get(x, []):
                    if isinstance(y, bool):
                        if r in ("True", "False") and r != str(y):
                            return True
                    elif isinstance(y, tuple) and y and y[0] == "not-in":
                        if r in [str(v) for v in y[1]]:
                            return True
                    else:
                        if r.startswith("('not-in'"):
                            import ast
                            try:
                                if y in ast.literal_eval(r)[1]:
                                    return True
                            except (ValueError, SyntaxError):
                                pass
                        elif r not in ("True", "False") and r != str(y):
                            return True
                return False
            res.append(all(any(contra(x, y) for (x, y) in alt) for alt in alts))
        return bool(res) and all(res)

    def forbids(self, rule, body, blk, event, atoms):
        """No path to `blk` satisfies all of `atoms` together (regexes)."""
        disj = self.pc_strs(body, blk)
        ok = not any(all(self._sat(d, a) for a in atoms) for d in disj)
        self.ob(rule, body.key, event, ok, "forbidden under %s; found %s" % (atoms, [sorted(d) for d in disj]))
        return ok

    def expr(self, body, node):
        """Rendered symbolic expression of an operand / rvalue / place dict."""
        s, _ = self.sym(body)
        if "k" in node and node["k"] in ("copy", "move", "const", "other") and ("p" in node or "text" in node):
            return s.show(sym.strip_transparent(s.operand(node)))
        if "local" in node:
            return s.show(sym.strip_transparent(s.place(node)))
        return s.show(sym.strip_transparent(s.rvalue(node)))

    def ret_values(self, body):
        """The distinct rendered values the function returns (`return x` on several paths is one value)."""
        out = []
        for _, e in self.ret_exprs(body):
            if e not in out:
                out.append(e)
        return out

    def ret_exprs(self, body):
        """(block, rendered expr) for every assignment / call that defines the return place _0."""
        out = []
        seen = set()
        s, _ = self.sym(body)

        def expand(l, depth=0):
            for d in body.defs().get(l, []):
                blk, i, kind, node = d
                if body.is_cleanup(blk) or kind not in ("assign", "call"):
                    continue
                e = sym.strip_transparent(s._def_expr(d, 0))
                # a value assembled in a local on several branches (`let r = if .. {a} else {b}; r`)
                if e[0] == "local" and depth < 4 and e[1] != l:
                    expand(e[1], depth + 1)
                    continue
                out.append((blk, s.show(e)))

        expand(0)
        return out

    def true_conditions(self, body):
        """DNF (list of sets of atom strings) under which a bool-returning function returns true,
        whatever mix of `==`, `matches!`, `match` or early returns it is written with."""
        s, pc = self.sym(body)
        out = set()

        def values(l, want, depth=0):
            """(block, expr, wanted truth value) for every definition the bool local may come from"""
            for d in body.defs().get(l, []):
                blk, i, kind, node = d
                if body.is_cleanup(blk) or kind not in ("assign", "call"):
                    continue
                e = sym.strip_transparent(s._def_expr(d, 0))
                w = want
                while e[0] == "not":
                    e, w = e[1], not w
                if e[0] == "local" and len(e) == 2 and e[1] != l and depth < 5:
                    for x in values(e[1], w, depth + 1):
                        yield x
                else:
                    yield blk, e, w

        for blk, e, want in values(0, True):
            cb = sym._const_bool(e[1]) if e[0] == "const" else None
            if cb is not None and cb != want:
                continue
            for cs in pc.conditions(blk):
                if cb is not None:
                    out.add(cs)
                else:
                    a = sym.normalise_atom(e, want)
                    if not any(e2 == a[0] and sym._contradict(v2, a[1]) for (e2, v2) in cs):
                        out.add(cs | {a})
        out = self._expand_atoms(body, sym._absorb(out))
        return [set(sym.atom_str(e, v, s) for e, v in cs) for cs in out]

    def _expand_atoms(self, body, dnf, fuel=3):
        """atoms that read through a definition (`x.filter(p).is_some()`, a private predicate,
        `helper(x).is_some()`) replaced by what they mean"""
        if fuel == 0:
            return dnf
        out, changed = set(), False
        for cs in dnf:
            tgt = None
            for at in cs:
                alts = sym.predicate_alternatives(body.crate, at)
                if alts:
                    tgt = (at, alts)
                    break
            if tgt is None:
                out.add(cs)
                continue
            changed = True
            at, alts = tgt
            rest = frozenset(c for c in cs if c != at)
            for alt in alts[:8]:
                cur = rest
                for (x, y) in alt:
                    a_ = sym.normalise_atom(x, y) if isinstance(y, bool) else (x, y)
                    f_ = sym.fold_atom(a_[0], a_[1])
                    if f_ is True:
                        continue
                    if f_ is False:
                        cur = None
                        break
                    cur = sym._add_atom(cur, a_)
                    if cur is None:
                        break
                if cur is not None:
                    out.add(cur)
        return self._expand_atoms(body, sym._absorb(out), fuel - 1) if changed else out

    def true_conditions_raw(self, body):
        """true_conditions as sets of (expr, value) atoms"""
        s, pc = self.sym(body)
        out = set()

        def values(l, want, depth=0):
            for d in body.defs().get(l, []):
                blk, i, kind, node = d
                if body.is_cleanup(blk) or kind not in ("assign", "call"):
                    continue
                e = sym.strip_transparent(s._def_expr(d, 0))
                w = want
                while e[0] == "not":
                    e, w = e[1], not w
                if e[0] == "local" and len(e) == 2 and e[1] != l and depth < 5:
                    for x in values(e[1], w, depth + 1):
                        yield x
                else:
                    yield blk, e, w

        for blk, e, want in values(0, True):
            cb = sym._const_bool(e[1]) if e[0] == "const" else None
            if cb is not None and cb != want:
                continue
            for cs in pc.conditions(blk):
                if cb is not None:
                    out.add(cs)
                else:
                    a = sym.normalise_atom(e, want)
                    if not any(e2 == a[0] and sym._contradict(v2, a[1]) for (e2, v2) in cs):
                        out.add(cs | {a})
        return sym._absorb(out)

    def filtered_table_rows(self, body):
        """A table written as data: an array literal of tuples that is filtered by a closure before
        use (`[(flag_a, x), (flag_b, y)].into_iter().filter(|(on, _)| any || *on)`).  For each row:
        (locals of the tuple's operands, DNF of atom strings under which the row is kept – the
        closure's own condition with the element's fields replaced by the row's operands).  The
        if-chain `if any || flag_a { x }` and the table row read the same."""
        from . import resalg as _ra
        s, _ = self.sym(body)
        tuples, arrays = {}, []
        for blk, i, st in body.stmts():
            if st["k"] == "assign" and st["r"]["k"] == "aggregate":
                if st["r"]["agg"] == "tuple" and not st["p"]["proj"]:
                    tuples[st["p"]["local"]] = st
                elif st["r"]["agg"] == "array":
                    arrays.append(st)      # `[..]`, or the array `vec![..]` writes into its box
        out = []

        def fold(e):
            if not isinstance(e, tuple) or not e:
                return e
            e = tuple(fold(x) if isinstance(x, tuple) else x for x in e)
            if e[0] == "field" and isinstance(e[1], tuple) and e[1][0] == "agg" and e[1][1] == "tuple" and str(e[2]).isdigit() and int(e[2]) < len(e[1][2]):
                return e[1][2][int(e[2])]
            return e

        for blk, t in self.find_calls(body, r"Iterator(>)?::filter$"):
            src = sym.strip_transparent(s.operand(t["args"][0]))
            cl = sym.strip_transparent(s.operand(t["args"][1]))
            if cl[0] != "closure":
                continue
            cb = _ra._closure_body(body.crate, cl[1])
            if cb is None or cb.local_ty(0) != "bool":
                continue
            for st in arrays:
                ops = [(o.get("p") or {}).get("local") for o in st["r"]["ops"]]
                if not ops or any(o not in tuples for o in ops):
                    continue
                arr = sym.strip_transparent(s.rvalue(st["r"]))
                if st["p"]["proj"]:
                    # vec![..]: the array is written through the box that becomes the Vec
                    if st["p"]["proj"][0]["k"] != "deref" or "box_assume_init_into_vec" not in sym.show(src, s):
                        continue
                    if len([x for x in arrays if x["p"]["proj"]]) != 1:
                        continue
                elif not _ra._has_subterm(src, arr):
                    continue
                tc = self.true_conditions_raw(cb)
                for o in ops:
                    row = sym.strip_transparent(s.rvalue(tuples[o]["r"]))
                    dnf = []
                    for cs in tc:
                        ds = [set()]
                        for (e, v) in cs:
                            e2 = sym.strip_transparent(fold(_ra._subst_closure(e, cl[2], [row])))
                            a2 = sym.normalise_atom(e2, v) if isinstance(v, bool) else (e2, v)
                            # a private predicate of the crate reads as its definition
                            alts = sym.predicate_alternatives(body.crate, a2) if isinstance(a2[1], bool) else None
                            if alts:
                                ds = [d | {sym.atom_str(x, y, s) for (x, y) in alt} for d in ds for alt in alts][:16]
                            else:
                                ds = [d | {sym.atom_str(a2[0], a2[1], s)} for d in ds]
                        dnf.extend(ds)
                    out.append(([(x.get("p") or {}).get("local") for x in tuples[o]["r"]["ops"]], dnf))
        return out

    # ------------------------------------------------------------------ event finders
    def find_calls(self, body, callee_rx, include_cleanup=False):
        rx = re.compile(callee_rx)
        out = []
        for blk, t in body.calls(include_cleanup):
            c = mir.callee_of(t)
            ci = mir.callee_info(t)
            names = [c] if c else []
            if ci:
                names += [ci.get("fn"), ci.get("fn_with_args"), ci.get("resolved_with_args")]
            if any(n and rx.search(n) for n in names):
                out.append((blk, t))
        return out

    def closure_sites(self, body):
        """closure key -> block of `body` in which the closure value is built"""
        out = {}
        for blk, i, st in body.stmts():
            if st["k"] == "assign" and st["r"]["k"] == "aggregate" and st["r"]["agg"] == "closure":
                out.setdefault(st["r"]["closure"], blk)
        return out

    def find_calls_deep(self, body, callee_rx, helpers=0):
        """Calls matching `callee_rx` in `body` or in closures built by it (any depth) and, with
        helpers=n, in private hand-written fns of the crate called from there (n levels):
        (block of `body` that makes the call / builds the outermost closure / calls the outermost
        helper, terminator, body that contains the call).  A loop written as `for` and one written
        as `fold`/`for_each`, a step written inline and one factored into a helper, agree."""
        out = [(blk, t, body) for blk, t in self.find_calls(body, callee_rx)]
        seen = {body.key}

        def private_callees(b):
            res = []
            for blk, t in b.calls():
                c = mir.callee_of(t)
                lst = self.bodies(body.crate).get(c) if c else None
                if lst and lst[0].kind in ("Fn", "AssocFn") and not lst[0].derived and str(lst[0].raw.get("vis", "")).startswith("Restricted"):
                    res.append((blk, lst[0]))
            return res

        def walk(owner_blk, b, depth):
            sites = self.closure_sites(b)
            for c in self.closures_of(b):
                ob = owner_blk if owner_blk is not None else sites.get(c.key)
                if ob is None or c.key in seen:
                    continue
                seen.add(c.key)
                for blk, t in self.find_calls(c, callee_rx):
                    out.append((ob, t, c))
                walk(ob, c, depth)
            if depth < helpers:
                for blk, h in private_callees(b):
                    ob = owner_blk if owner_blk is not None else blk
                    if h.key in seen:
                        continue
                    seen.add(h.key)
                    for blk2, t in self.find_calls(h, callee_rx):
                        out.append((ob, t, h))
                    walk(ob, h, depth + 1)

        walk(None, body, 0)
        return out

    def local_callees(self, body, depth=1):
        """Hand-written functions of the same crate called by `body` or its closures (helpers a
        computation may have been factored into), to `depth` levels."""
        out, seen, frontier = [], {body.key}, [body]
        for _ in range(depth):
            nxt = []
            for b in frontier:
                for bb in [b] + self.closures_of(b):
                    for blk, t in bb.calls():
                        c = mir.callee_of(t)
                        if not c or c in seen:
                            continue
                        lst = self.bodies(body.crate).get(c)
                        if lst and lst[0].kind in ("Fn", "AssocFn") and not lst[0].derived:
                            seen.add(c)
                            out.append(lst[0])
                            nxt.append(lst[0])
            frontier = nxt
        return out

    ADAPTERS = re.compile(r"Iterator(>)?::(map|filter_map|for_each|fold|flat_map|filter|try_for_each|try_fold|all|any|find|find_map|map_while|inspect)$")

    def loop_blocks(self, body):
        """blocks of natural loops of `body`"""
        out = set()
        preds = body.preds()
        for b in body.normal_blocks():
            for lab, tb in body.succ_edges(b):
                if body.dominates(tb, b):
                    loop = {tb}
                    st = [b]
                    while st:
                        x = st.pop()
                        if x in loop:
                            continue
                        loop.add(x)
                        st.extend(p for p, _ in preds.get(x, []))
                    out |= loop
        return out

    def per_element(self, body, callee_rx, helpers=0):
        """see _per_element; with helpers=1 a call to a private helper of the crate that makes the
        matching call itself counts as the matching call (hit['via'] names the helper)"""
        hits = self._per_element(body, callee_rx)
        if helpers:
            for h in self.local_callees(body, depth=1):
                if str(h.raw.get("vis", "")).startswith("Restricted") and self.find_calls_deep(h, callee_rx, helpers=helpers - 1):
                    for x in self._per_element(body, "^" + re.escape(h.key) + "$"):
                        x["via"] = h
                        hits.append(x)
        return hits

    def _per_element(self, body, callee_rx):
        """Calls matching `callee_rx` that run once per element of an iteration of `body`, whichever
        way the iteration is written: inside a closure handed to an iterator adapter, or inside a
        `for`/`while let` loop.  Each hit: dict(owner=body containing the call, t=terminator,
        form='adapter'|'loop', source=rendered expression of what is iterated)."""
        hits = []
        loops = self.loop_blocks(body)
        nexts = [(b2, t2) for b2, t2 in self.find_calls(body, r"Iterator(>)?::next$") if b2 in loops]
        for blk, t in self.find_calls(body, callee_rx):
            if blk in loops:
                src = [self.expr(body, t2["args"][0]) for _, t2 in nexts]
                hits.append(dict(owner=body, t=t, blk=blk, form="loop", source=src[0] if src else ""))
        for c in self.closures_of(body):
            inner = [(c2, t, b_) for c2 in [c] + self._closures_deep(c) for b_, t in self.find_calls(c2, callee_rx)]
            if not inner:
                continue
            src = ""
            form = "closure"
            for _, t2 in body.calls():
                nm = mir.callee_of(t2) or ""
                if self.ADAPTERS.search(nm) and any(c.key in self.expr(body, a) for a in t2["args"][1:]):
                    src = self.expr(body, t2["args"][0])
                    form = "adapter"
            for c2, t, b_ in inner:
                hits.append(dict(owner=c2, t=t, blk=b_, form=form, source=src))
        return hits

    def collection_form(self, body, operand):
        """How the collection held by `operand` was built from another one, whichever way it is
        written: dict(form='adapter', source=…, element=…, chain=[adapter names]) for
        `src.iter().map(f).collect()`, dict(form='loop', …) for `let mut v = Vec::new(); for x in
        src { v.push(g(x)) }`; None when it is neither."""
        e = self.expr(body, operand)
        m = re.search(r"Iterator(?:>)?::collect\((.*)\)", e)
        if m:
            chain = re.findall(r"Iterator(?:>)?::(\w+)\(", m.group(1))
            return dict(form="adapter", source=m.group(1), element=m.group(1), chain=chain)
        if operand.get("k") not in ("copy", "move") or operand["p"]["proj"]:
            return None
        root = operand["p"]["local"]
        for _ in range(6):
            ds = [d for d in body.defs().get(root, []) if not body.is_cleanup(d[0])]
            if len(ds) == 1 and ds[0][2] == "assign" and ds[0][3]["r"]["k"] == "use" and ds[0][3]["r"]["op"]["k"] in ("copy", "move") and not ds[0][3]["r"]["op"]["p"]["proj"]:
                root = ds[0][3]["r"]["op"]["p"]["local"]
                continue
            break
        hits = []
        for h in self.per_element(body, r"Vec::<.*>::push$"):
            if h["form"] != "loop" or h["owner"] is not body:
                continue
            a0 = h["t"]["args"][0]
            l0 = a0["p"]["local"] if a0["k"] in ("copy", "move") else None
            # `&mut v` taken just before the call
            for d in body.defs().get(l0, []):
                if d[2] == "assign" and d[3]["r"]["k"] == "ref" and not d[3]["r"]["p"]["proj"]:
                    l0 = d[3]["r"]["p"]["local"]
            if l0 == root:
                hits.append(h)
        if len(hits) == 1:
            h = hits[0]
            rev = bool(self.find_calls(body, r"::rev$|::next_back$"))
            return dict(form="loop", source=h["source"], element=self.expr(body, h["t"]["args"][1]), chain=["rev"] if rev else [], blk=h["blk"])
        return None

    def _closures_deep(self, body):
        out = []
        for c in self.closures_of(body):
            out.append(c)
            out.extend(self._closures_deep(c))
        return out

    def generator_group(self, body):
        """a generator and the private helper fns (with templates of their own) it was cut into"""
        from . import tpl as _tpl
        out = [body]
        frontier = [body]
        for _ in range(2):
            nxt = []
            for b in frontier:
                for h in self.local_callees(b, depth=1):
                    if h.key in [x.key for x in out]:
                        continue
                    if str(h.raw.get("vis", "")).startswith("Restricted") and _tpl.Templates(h).events and self._single_call_site(h) and self.has_transparent_caller(h):
                        out.append(h)
                        nxt.append(h)
            frontier = nxt
        return out

    def _single_call_site(self, h):
        n = 0
        for c in self.all_bodies(h.crate):
            if c.key == h.key:
                continue
            for blk, t in c.calls():
                if mir.callee_of(t) == h.key:
                    n += 1
        return n == 1

    def find_aggregates(self, body, adt_rx, variant=None):
        rx = re.compile(adt_rx)
        out = []
        for blk, i, st in body.stmts():
            if st["k"] == "assign" and st["r"]["k"] == "aggregate" and st["r"]["agg"] == "adt":
                if rx.search(st["r"]["adt"]) and (variant is None or st["r"]["variant"] == variant):
                    out.append((blk, i, st))
        return out

    def field_writes(self, body, base_local=1):
        """Writes to fields of `base_local` (self): (block whose path condition selects the write,
        field name, assignment statement).  A write through a `&mut` chosen by a match
        (`let slot = match w { "a" => &mut self.a, .. }; *slot = v`) is reported once per arm, under
        the arm's condition."""
        out = []
        for blk, i, st in body.stmts():
            if st["k"] != "assign":
                continue
            p = st["p"]
            flds = [e for e in p["proj"] if e["k"] == "field"]
            if p["local"] == base_local and flds:
                out.append((blk, flds[-1]["name"], st))
                continue
            if p["local"] != base_local and p["proj"] and all(e["k"] == "deref" for e in p["proj"]):
                # *ptr = v : where does ptr point?
                todo, seen = [p["local"]], set()
                while todo:
                    l = todo.pop()
                    if l in seen:
                        continue
                    seen.add(l)
                    for d in body.defs().get(l, []):
                        if d[2] != "assign" or body.is_cleanup(d[0]):
                            continue
                        r = d[3]["r"]
                        if r["k"] == "ref" and r["p"]["local"] == base_local:
                            f2 = [e for e in r["p"]["proj"] if e["k"] == "field"]
                            if f2:
                                out.append((d[0], f2[-1]["name"], st))
                        elif r["k"] == "ref" and all(e["k"] == "deref" for e in r["p"]["proj"]):
                            todo.append(r["p"]["local"])      # reborrow
                        elif r["k"] == "use" and r["op"]["k"] in ("copy", "move") and not [e for e in r["op"]["p"]["proj"] if e["k"] != "deref"]:
                            todo.append(r["op"]["p"]["local"])
        return out

    def find_field_assigns(self, body, field, base_local=None):
        out = []
        for blk, i, st in body.stmts():
            if st["k"] == "assign":
                pr = [e for e in st["p"]["proj"] if e["k"] != "deref"]
                if pr and pr[-1]["k"] == "field" and pr[-1]["name"] == field:
                    if base_local is None or st["p"]["local"] == base_local:
                        out.append((blk, i, st))
        return out

    # ------------------------------------------------------------------ finishing
    def finish(self, level="other", explanation="", trusted=None, assumptions=None, extra=None):
        known = load_known()
        kf = [k for k in known.get("findings", []) if k["property"] == self.pid]
        listed = {(k["rule"], k["fn"], k["event"]): k for k in kf}
        unlisted = []
        seen_known = {}
        for v in self.violations:
            k = listed.get(v.key())
            if k is not None:
                seen_known[v.key()] = (k, v)
            else:
                unlisted.append(v)
        out_lines = []
        for key, (k, v) in sorted(seen_known.items()):
            out_lines.append("KNOWN-FINDING: property=%s %s [%s] rule=%s fn=%s event=%s" % (self.pid, k.get("what", ""), k.get("id", ""), v.rule, v.fn, v.event))
        replay = None
        if unlisted:
            os.makedirs(os.path.join(VERIF, "replay"), exist_ok=True)
            replay = os.path.join(VERIF, "replay", "%s.json" % self.pid)
            with open(replay, "w") as f:
                json.dump([{"rule": v.rule, "fn": v.fn, "event": v.event, "detail": v.detail} for v in unlisted], f, indent=1)
            for v in unlisted:
                out_lines.append("  violation rule=%s fn=%s event=%s :: %s" % (v.rule, v.fn, v.event, v.detail[:1500]))
            out_lines.append("VIOLATION property=%s replay=%s" % (self.pid, replay))
        wall = time.time() - self.t0
        nontrivial = len(self.rules)
        cov = {
            "explanation": explanation,
            "obligations": self.obligations,
            "discharged": self.discharged,
            "known_findings_reported": len(seen_known),
            "evaluations": self.obligations,
            "distinct_nontrivial": max(nontrivial, 0),
            "rule": "one obligation per (rule, function, event) instance found in the current MIR/template facts; distinct_nontrivial counts distinct rule ids evaluated",
            "rules": {k: {"instances": v[0], "held": v[1]} for k, v in sorted(self.rules.items())},
            "functions_analysed": sorted(self.functions)[:400],
            "n_functions_analysed": len(self.functions),
            "floors": self.floors,
            "samples": self.samples[:40] or [{"note": "no sample recorded"}],
            "checker_cmd": "./check %s %s" % (self.pid, self.tier),
            "trusted_base": trusted or ["rustc MIR construction and drop elaboration (nightly 1.97)", "Instance::try_resolve", "the rule layer in /verif/vlib and /verif/props"],
        }
        if extra:
            cov.update(extra)
        ev = {
            "property_id": self.pid,
            "tier": self.tier,
            "seed": self.seed,
            "level": level,
            "coverage": cov,
            "assumptions": assumptions or [],
            "wall_s": round(wall, 2),
            "violations": len(unlisted),
            "notes": self.notes,
            "repo_tree_hash": facts.tree_hash(),
        }
        os.makedirs(os.path.join(VERIF, "evidence"), exist_ok=True)
        with open(os.path.join(VERIF, "evidence", "%s.json" % self.pid), "w") as f:
            json.dump(ev, f, indent=1)
        try:
            print("%s %s: %d obligations, %d discharged, %d known findings, %d violations, %.1fs" % (
                self.pid, self.tier, self.obligations, self.discharged, len(seen_known), len(unlisted), wall))
            for l in out_lines:
                print(l)
            sys.stdout.flush()
        except BrokenPipeError:
            pass
        return 1 if unlisted else 0


def load_known():
    if not os.path.exists(KNOWN):
        return {"findings": [], "fixed": []}
    with open(KNOWN) as f:
        return json.load(f)

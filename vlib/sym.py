"""Symbolic atoms over MIR: backward def-chasing of operands into small expressions over the
parameters, and path conditions (projected DNF over the loop-free CFG) of blocks.

Expressions are nested tuples:
  ('param', i, name) | ('local', n) | ('const', text) | ('field', e, name) | ('variant', e, V)
  ('index', e) | ('call', callee, (args…)) | ('discr', e) | ('bin', op, a, b) | ('not', e)
  ('agg', kind, (ops…)) | ('fnptr', path) | ('closure', key, (captures…)) | ('len', e)
References, derefs, moves, copies and pointer casts are transparent.
"""
import re

from .mir import callee_info

MAX_DEPTH = 40


class Sym:
    def __init__(self, body):
        self.b = body
        self.defs = body.defs()
        self._cache = {}
        self.opaque = set()   # locals never expanded (e.g. the slots of a derived fn)
        self.names = {}
        for d in body.raw["debug"]:
            p = d["p"]
            if not p["proj"] and d.get("arg") is not None:
                self.names[p["local"]] = d["name"]
        for d in body.raw["debug"]:
            p = d["p"]
            if not p["proj"] and 1 <= p["local"] <= body.arg_count:
                self.names.setdefault(p["local"], d["name"])
        # captured variables of closures: debug name => projection of _1
        self.captures = {}
        for d in body.raw["debug"]:
            p = d["p"]
            if p["proj"] and p["local"] == 1:
                key = tuple((e["k"], e.get("name")) for e in p["proj"] if e["k"] != "deref")
                self.captures[key] = d["name"]

    # ------------------------------------------------------------------ expressions
    def local(self, l, depth=0, at=None):
        if 1 <= l <= self.b.arg_count:
            # parameters that are reassigned are still treated as the parameter
            return ("param", l, self.names.get(l, "_%d" % l))
        if l in self.opaque:
            return ("local", l)
        if l in self._cache:
            return self._cache[l]
        if depth > MAX_DEPTH:
            return ("local", l)
        ds = [d for d in self.defs.get(l, []) if d[2] in ("assign", "call")]
        partial = [d for d in self.defs.get(l, []) if d[2] not in ("assign", "call")]
        self._cache[l] = ("local", l)  # cycle guard
        res = ("local", l)
        if len(ds) == 1 and not partial:
            res = self._def_expr(ds[0], depth + 1)
        elif len(ds) > 1 and not partial:
            # drop flags / loop variables: all defs equal?
            exprs = {self._def_expr(d, depth + 1) for d in ds}
            if len(exprs) == 1:
                res = exprs.pop()
        self._cache[l] = res
        return res

    def _def_expr(self, d, depth):
        b, i, kind, node = d
        if kind == "call":
            ci = callee_info(node)
            if ci is None:
                f = node["func"]
                fe = self.operand(f, depth)
                return ("call", ("indirect", fe), tuple(self.operand(a, depth) for a in node["args"]))
            name = ci.get("resolved") or ci["fn"]
            args = tuple(self.operand(a, depth) for a in node["args"])
            summ = accessor_summary(self.b.crate, name)
            if summ is not None and len(args) == summ[0]:
                return subst_params(summ[1], args)
            # `x == Enum::Unit` through a derived PartialEq is a test of the variant
            if name.endswith(" as core::cmp::PartialEq>::eq") and len(args) == 2 and _derived_eq(self.b.crate, name):
                ty = name[1:].split(" as ")[0]
                for x, y in ((args[0], args[1]), (args[1], args[0])):
                    y = strip_transparent(y)
                    if y[0] == "const" and y[1].startswith(ty + "::"):
                        return ("call", "is_variant", (x, ("const", y[1][len(ty) + 2:])), ())
            e = ("call", name, args, _targs(ci))
            # a call through a `&mut` argument is not a pure function of its rendered operands:
            # tag it with its site so that two such calls are different values
            for a in node["args"]:
                if a["k"] in ("copy", "move") and self.b.local_ty(a["p"]["local"]).startswith("&mut ") and not a["p"]["proj"]:
                    e = e + (("site", b),)
                    break
            return e
        r = node["r"]
        return self.rvalue(r, depth)

    def rvalue(self, r, depth=0):
        k = r["k"]
        if k == "use":
            return self.operand(r["op"], depth)
        if k in ("ref", "rawptr"):
            return self.place(r["p"], depth)
        if k == "cast":
            inner = self.operand(r["op"], depth)
            if r["cast"].startswith("PointerCoercion(ReifyFnPointer") or r["cast"].startswith("PointerCoercion(ClosureFnPointer"):
                return inner
            return inner
        if k == "binop":
            return ("bin", r["op"], self.operand(r["a"], depth), self.operand(r["b"], depth))
        if k == "unop":
            if r["op"] == "Not":
                return ("not", self.operand(r["a"], depth))
            if r["op"] == "PtrMetadata":
                return ("len", self.operand(r["a"], depth))
            return ("un", r["op"], self.operand(r["a"], depth))
        if k == "discr":
            return ("discr", self.place(r["p"], depth))
        if k == "aggregate":
            a = r["agg"]
            ops = tuple(self.operand(o, depth) for o in r["ops"])
            if a == "adt":
                return ("agg", "%s::%s" % (r["adt"], r["variant"]), ops)
            if a == "closure":
                return ("closure", r["closure"], ops)
            return ("agg", a, ops)
        if k == "repeat":
            return ("agg", "repeat", (self.operand(r["op"], depth),))
        return ("other", r.get("text", "?"))

    def operand(self, o, depth=0):
        k = o["k"]
        if k in ("copy", "move"):
            return self.place(o["p"], depth)
        if k == "const":
            if "fn" in o:
                return ("fnptr", o.get("resolved") or o["fn"], _targs(o))
            m = re.search(r"::promoted\[(\d+)\]$", o["text"])
            if m:
                pr = self.b.raw.get("promoted") or []
                i = int(m.group(1))
                if i < len(pr) and len(pr[i]) == 1:
                    return ("const", pr[i][0])
            return ("const", o["text"])
        return ("other", o.get("text", "?"))

    def place(self, p, depth=0):
        e = self.local(p["local"], depth)
        for pr in p["proj"]:
            k = pr["k"]
            if k == "deref":
                continue
            if k == "field":
                e = self._field(e, pr)
            elif k == "downcast":
                e = ("variant", e, pr["variant"])
            elif k in ("index", "constindex"):
                off = pr.get("offset") if k == "constindex" else None
                if k == "index" and "local" in pr:
                    ci = _const_int(self.local(pr["local"], depth + 1))
                    if ci is not None:
                        off = ci        # `x[0]` and the slice pattern `[first, ..]` read the same element
                e = ("index", e, off)
            else:
                e = ("proj", e, k)
        return e

    def _field(self, e, pr):
        # tuple/closure/adt aggregate projection folds to the element
        if e[0] == "agg" and e[1] in ("tuple",) and pr["i"] < len(e[2]):
            return e[2][pr["i"]]
        if e[0] == "variant" and e[1][0] == "agg" and e[1][1].endswith("::" + e[2]) and pr["i"] < len(e[1][2]):
            return e[1][2][pr["i"]]
        return ("field", e, pr["name"])

    # ------------------------------------------------------------------ rendering
    def show(self, e):
        return show(e, self)


# ---------------------------------------------------------------------- accessor inlining
INLINE_MAX_NODES = 14
_in_progress = set()
INLINED = {}   # callee -> rendered summary (reported in evidence / by tools)


def _nodes(e):
    if not isinstance(e, tuple):
        return 0
    return 1 + sum(_nodes(x) for x in e if isinstance(x, tuple))


def _closed(e):
    if not isinstance(e, tuple) or not e:
        return True
    if e[0] in ("local", "other", "site"):
        return False
    if e[0] == "closure":
        # a closure that captures nothing is a constant; one that captures only parameters (or
        # fields of them) is a value over the parameters
        return all(_closed(x) for x in e[2] if isinstance(x, tuple))
    if e[0] == "call" and isinstance(e[1], tuple):
        return False
    return all(_closed(x) for x in e if isinstance(x, tuple))


def subst_params(e, args):
    if not isinstance(e, tuple) or not e:
        return e
    if e[0] == "param" and len(e) == 3 and isinstance(e[1], int):
        return args[e[1] - 1]
    return tuple(subst_params(x, args) if isinstance(x, tuple) else x for x in e)


def accessor_summary(crate, name):
    """(arg_count, expr over params) when `name` is a hand-written straight-line function of this
    crate that only reads its arguments (a getter / predicate such as `Error::has_span`); the call
    is then replaced by its value so that a guard reads the same whether or not it goes through
    the helper.  None otherwise."""
    from .mir import Body
    cache = crate.setdefault("_summaries", {})
    if name in cache:
        return cache[name]
    idx = crate.get("_raw_by_key")
    if idx is None:
        idx = {}
        for raw in crate["bodies"]:
            idx.setdefault(raw["key"], []).append(raw)
        crate["_raw_by_key"] = idx
    res = None
    raws = idx.get(name) if name not in TRANSPARENT_CALLS else None
    key = (id(crate), name)
    if raws and len(raws) == 1 and key not in _in_progress:
        raw = raws[0]
        _in_progress.add(key)
        try:
            res = _summarise(Body(raw, crate))
        finally:
            _in_progress.discard(key)
    cache[name] = res
    if res is not None:
        INLINED[name] = show(res[1])
    return res


def _derived_eq(crate, name):
    accessor_summary(crate, name)   # builds the index
    raws = crate["_raw_by_key"].get(name)
    if not raws:
        return False
    from .mir import Body
    return Body(raws[0], crate).derived


def _summarise(cb):
    if cb.kind not in ("Fn", "AssocFn") or cb.derived or cb.arg_count == 0:
        return None
    for l in range(1, cb.arg_count + 1):
        if cb.local_ty(l).startswith("&mut "):
            return None
    branching = False
    for b in cb.normal_blocks():
        k = cb.term(b)["k"]
        if k == "switch":
            branching = True
        elif k not in ("goto", "call", "drop", "return"):
            return None
    if branching:
        return _summarise_predicate(cb)
    s = Sym(cb)
    ds = [d for d in cb.defs().get(0, []) if not cb.is_cleanup(d[0])]
    if len(ds) != 1 or ds[0][2] not in ("assign", "call"):
        return None
    e = strip_transparent(s._def_expr(ds[0], 0))
    if not _closed(e) or _nodes(e) > INLINE_MAX_NODES or e[0] in ("param", "const", "agg", "fnptr"):
        return None
    # only predicates and plain getters: constructors and forwarders keep their identity
    if cb.local_ty(0) != "bool" and e[0] != "field":
        # … except a private view of the receiver: an Option assembled from fields of the
        # parameters with Option combinators only (`self.filter.filter(|f| ..)`)
        private = str(cb.raw.get("vis", "")).startswith("Restricted")
        if not (private and cb.local_ty(0).startswith("core::option::Option<") and e[0] == "call" and _only_option_combinators(e)):
            return None
    # every call made by the body must be part of the returned value (no side work)
    ncalls = sum(1 for b in cb.normal_blocks() if cb.term(b)["k"] == "call")
    if ncalls != _count_calls(s._def_expr(ds[0], 0)):
        return None
    return (cb.arg_count, e)


def _only_option_combinators(e):
    if not isinstance(e, tuple) or not e:
        return True
    if e[0] == "call":
        if not isinstance(e[1], str) or not re.match(r"^core::option::Option::<&?T>::(filter|zip|or|and|xor|as_ref|as_deref|copied|cloned)$", e[1]):
            return False
    return all(_only_option_combinators(x) for x in e if isinstance(x, tuple))


def _summarise_predicate(cb):
    """A bool function written with `matches!`/`match`/`if` that is true under exactly one atom over
    its parameters (`matches!(self.purpose, Purpose::Declare)`): the call reads as that atom."""
    if cb.local_ty(0) != "bool" or len(cb.blocks) > 12:
        return None
    if any(cb.term(b)["k"] == "call" for b in cb.normal_blocks()):
        return None
    s = Sym(cb)
    pc = PathCond(cb, s)
    if pc.back_edges():
        return None
    true = set()
    for d in cb.defs().get(0, []):
        blk, i, kind, node = d
        if cb.is_cleanup(blk) or kind != "assign":
            continue
        e = strip_transparent(s._def_expr(d, 0))
        cbool = _const_bool(e[1]) if e[0] == "const" else None
        if cbool is None:
            return None
        if cbool:
            try:
                true |= pc.conditions(blk)
            except RuntimeError:
                return None
    true = _absorb(true)
    if len(true) != 1:
        return None
    (cs,) = true
    if len(cs) != 1:
        return None
    ((e, v),) = cs
    if not _closed(e):
        return None
    if isinstance(v, bool):
        return (cb.arg_count, e if v else ("not", e))
    if e[0] == "discr" and isinstance(v, str):
        return (cb.arg_count, ("call", "is_variant", (e[1], ("const", v)), ()))
    return None


def _count_calls(e):
    if not isinstance(e, tuple) or not e:
        return 0
    return (1 if e[0] == "call" else 0) + sum(_count_calls(x) for x in e if isinstance(x, tuple))


SHORT = {
    "core::str::<impl str>::len": "len",
    "alloc::string::String::len": "len",
    "core::option::Option::<T>::is_some": "is_some",
    "core::option::Option::<T>::is_none": "is_none",
    "core::result::Result::<T, E>::is_ok": "is_ok",
    "core::result::Result::<T, E>::is_err": "is_err",
    "alloc::vec::Vec::<T, A>::is_empty": "is_empty",
    "alloc::vec::Vec::<T, A>::len": "len",
    "core::slice::<impl [T]>::is_empty": "is_empty",
    "core::slice::<impl [T]>::len": "len",
    "core::str::<impl str>::is_empty": "is_empty",
    "alloc::string::String::is_empty": "is_empty",
    "syn::path::Path::is_ident": "is_ident",
    "syn::punctuated::Punctuated::<T, P>::is_empty": "is_empty",
    "syn::punctuated::Punctuated::<T, P>::len": "len",
    "core::option::Option::<T>::as_ref": "as_ref",
    "core::option::Option::<T>::as_mut": "as_mut",
    "core::option::Option::<T>::unwrap_or_default": "unwrap_or_default",
}

TRANSPARENT_CALLS = {
    # `x.take()` / `mem::take(&mut x)` evaluate to the value x had
    "core::option::Option::<T>::take",
    "core::mem::take",
    "core::option::Option::<T>::as_ref",
    "core::option::Option::<T>::as_mut",
    "core::option::Option::<T>::as_deref",
    "<alloc::vec::Vec<T, A> as core::ops::deref::Deref>::deref",
    "<alloc::vec::Vec<T, A> as core::ops::deref::DerefMut>::deref_mut",
    "<alloc::string::String as core::ops::deref::Deref>::deref",
    "<alloc::boxed::Box<T, A> as core::ops::deref::Deref>::deref",
    "<T as core::convert::AsRef<U>>::as_ref",
    "<&T as core::convert::AsRef<U>>::as_ref",
    "<alloc::vec::Vec<T, A> as core::convert::AsRef<[T]>>::as_ref",
    "alloc::vec::Vec::<T, A>::as_slice",
    "<&T as core::ops::deref::Deref>::deref",
    "<T as core::borrow::Borrow<T>>::borrow",
    "<T as core::convert::Into<U>>::into",
    "<T as core::convert::From<T>>::from",
    "<darling_core::util::spanned_value::SpannedValue<T> as core::ops::deref::Deref>::deref",
    "<darling_core::util::spanned_value::SpannedValue<T> as core::convert::AsRef<T>>::as_ref",
}


def short_callee(c):
    if isinstance(c, tuple):
        return "indirect"
    if c in SHORT:
        return SHORT[c]
    return c


def _targs(ci):
    return tuple(ci.get("targs") or ())


def show(e, sym=None):
    k = e[0]
    if k == "param":
        return e[2] if e[2] == "self" else "a%d" % e[1]
    if k == "local":
        return "_%d" % e[1]
    if k == "const":
        t = e[1]
        return t[6:] if t.startswith("const ") else t
    if k == "field":
        base = e[1]
        # closure capture naming
        if sym is not None and base[0] in ("param",) and base[1] == 1 and sym.captures:
            key = (("field", e[2]),)
            if key in sym.captures:
                return sym.captures[key]
        return "%s.%s" % (show(e[1], sym), e[2])
    if k == "variant":
        return "(%s as %s)" % (show(e[1], sym), e[2])
    if k == "index":
        return "%s[%s]" % (show(e[1], sym), "" if e[2] is None else e[2])
    if k == "call":
        c = e[1]
        if isinstance(c, tuple):
            return "(%s)(%s)" % (show(c[1], sym), ", ".join(show(a, sym) for a in e[2]))
        return "%s(%s)" % (short_callee(c), ", ".join(show(a, sym) for a in e[2]))
    if k == "discr":
        return "discr(%s)" % show(e[1], sym)
    if k == "bin":
        return "%s(%s, %s)" % (e[1], show(e[2], sym), show(e[3], sym))
    if k == "not":
        return "!%s" % show(e[1], sym)
    if k == "len":
        return "len(%s)" % show(e[1], sym)
    if k == "un":
        return "%s(%s)" % (e[1], show(e[2], sym))
    if k == "agg":
        return "%s{%s}" % (e[1], ", ".join(show(a, sym) for a in e[2]))
    if k == "fnptr":
        return "fn %s" % e[1]
    if k == "closure":
        return "closure %s[%s]" % (e[1], ", ".join(show(a, sym) for a in e[2]))
    if k == "proj":
        return "%s.<%s>" % (show(e[1], sym), e[2])
    return str(e)


_INDEX_CALL = re.compile(r"(as core::ops::index::Index<usize>>::index$|<impl core::ops::index::Index<usize> for .*>::index$)")
FIRST_CALLS = {
    "syn::punctuated::Punctuated::<T, P>::first": "syn::punctuated::Punctuated::<T, P>::len",
    "core::slice::<impl [T]>::first": "core::slice::<impl [T]>::len",
}

UNWRAPS = {
    "core::option::Option::<T>::unwrap": "Some", "core::option::Option::<T>::expect": "Some",
    "core::result::Result::<T, E>::unwrap": "Ok", "core::result::Result::<T, E>::expect": "Ok",
    "core::result::Result::<T, E>::unwrap_err": "Err", "core::result::Result::<T, E>::expect_err": "Err",
}


def strip_transparent(e):
    """Remove transparent calls (as_ref, deref, …) everywhere in the expression; `x.unwrap()` reads
    like the payload of a `Some(..)` pattern."""
    if not isinstance(e, tuple) or not e:
        return e
    if e[0] == "call" and not isinstance(e[1], tuple) and e[1] in UNWRAPS and len(e[2]) >= 1:
        return ("field", ("variant", strip_transparent(e[2][0]), UNWRAPS[e[1]]), "0")
    # `x[n]` through an Index impl with a constant index, and `x.first().unwrap()` / the payload of
    # `Some(first)` from `x.first()`, are the element `x[n]` / `x[0]`
    if e[0] == "call" and isinstance(e[1], str) and _INDEX_CALL.search(e[1]) and len(e[2]) == 2:
        ci = _const_int(e[2][1])
        if ci is not None:
            return ("index", strip_transparent(e[2][0]), ci)
    if e[0] == "field" and e[2] == "0" and e[1][0] == "variant" and e[1][2] == "Some" and e[1][1][0] == "call" \
            and isinstance(e[1][1][1], str) and e[1][1][1] in FIRST_CALLS and e[1][1][2]:
        return ("index", strip_transparent(e[1][1][2][0]), 0)
    # the value of `x?` on the continuing path is the Ok / Some payload of x
    if e[0] == "field" and e[2] == "0" and e[1][0] == "variant" and e[1][2] == "Continue" and e[1][1][0] == "call" \
            and isinstance(e[1][1][1], str) and e[1][1][1].endswith("Try>::branch") and e[1][1][2]:
        inner = strip_transparent(e[1][1][2][0])
        return ("field", ("variant", inner, "Some" if "core::option::Option<" in e[1][1][1] else "Ok"), "0")
    if e[0] == "call" and not isinstance(e[1], tuple) and e[1] in TRANSPARENT_CALLS and len(e[2]) >= 1:
        return strip_transparent(e[2][0])
    # the two halves of `a.zip(b)`'s payload are the payloads of a and b; the payload of
    # `x.filter(p)` is the payload of x
    if e[0] == "field" and str(e[2]) in ("0", "1") and e[1][0] == "field" and e[1][2] == "0" and e[1][1][0] == "variant" and e[1][1][2] == "Some" \
            and e[1][1][1][0] == "call" and e[1][1][1][1] == ZIP and len(e[1][1][1][2]) == 2:
        side = strip_transparent(e[1][1][1][2][int(e[2])])
        if side[0] == "agg" and side[1] == "core::option::Option::Some" and side[2]:
            return side[2][0]
        return ("field", ("variant", side, "Some"), "0")
    if e[0] == "field" and e[2] == "0" and e[1][0] == "variant" and e[1][2] == "Some" and e[1][1][0] == "call" and e[1][1][1] == FILTER and len(e[1][1][2]) == 2:
        return ("field", ("variant", strip_transparent(e[1][1][2][0]), "Some"), "0")
    # the payload of `x.map(f)` with a fn item f is f(payload of x)
    if e[0] == "field" and e[2] == "0" and e[1][0] == "variant" and e[1][2] == "Some" and e[1][1][0] == "call" and e[1][1][1] == OMAP and len(e[1][1][2]) == 2 \
            and e[1][1][2][1][0] == "fnptr":
        fn = e[1][1][2][1]
        return strip_transparent(("call", fn[1], (("field", ("variant", e[1][1][2][0], "Some"), "0"),), fn[2] if len(fn) > 2 else ()))
    return tuple(strip_transparent(x) if isinstance(x, tuple) else x for x in e)


OMAP = "core::option::Option::<T>::map"
SOME_PRESERVING = (OMAP, "core::option::Option::<T>::cloned", "core::option::Option::<&T>::cloned", "core::option::Option::<&T>::copied", "core::option::Option::<T>::inspect",
                   "core::option::Option::<T>::as_deref", "core::option::Option::<T>::as_deref_mut")
ZIP = "core::option::Option::<T>::zip"
FILTER = "core::option::Option::<T>::filter"


def _closure_dnf(crate, key):
    """DNF (tuples of atoms over the closure's parameters and captures) under which a bool closure
    returns true, or None"""
    from .mir import Body
    accessor_summary(crate, key)
    raws = crate["_raw_by_key"].get(key)
    if not raws or len(raws) != 1 or raws[0]["kind"] != "Closure" or len(raws[0]["blocks"]) > 30:
        return None
    cb = Body(raws[0], crate)
    if cb.local_ty(0) != "bool":
        return None
    s = Sym(cb)
    pc = PathCond(cb, s)
    if pc.back_edges():
        return None
    true = set()

    def values(l, want, depth=0):
        for d in cb.defs().get(l, []):
            blk, i, kind, node = d
            if cb.is_cleanup(blk) or kind not in ("assign", "call"):
                continue
            e = strip_transparent(s._def_expr(d, 0))
            w = want
            while e[0] == "not":
                e, w = e[1], not w
            if e[0] == "local" and len(e) == 2 and e[1] != l and depth < 5:
                for x in values(e[1], w, depth + 1):
                    yield x
            else:
                yield blk, e, w

    try:
        for blk, e, want in values(0, True):
            cbool = _const_bool(e[1]) if e[0] == "const" else None
            if cbool is not None and cbool != want:
                continue
            for cs in pc.conditions(blk):
                if cbool is not None:
                    true.add(cs)
                else:
                    c2 = _add_atom(cs, normalise_atom(e, want))
                    if c2 is not None:
                        true.add(c2)
    except RuntimeError:
        return None
    true = _absorb(true)
    if not true or len(true) > 4 or any(len(d) > 4 for d in true):
        return None
    return [tuple(sorted(d, key=repr)) for d in sorted(true, key=repr)]


_HRA = {}
# deep mode (set by resalg.cases(.., deep=True)): public inherent fns of the crate are read by their
# definition too when their result is looked into
DEEP = False


def _helper_result_alternatives(crate, a):
    """`helper(x).is_some()` / `.is_ok()` for a private, loop-free helper of the crate whose every
    return is a visible `Some/None/Ok/Err`: the conditions of the cases that return that variant"""
    e, v = a
    if e[0] != "call" or e[1] not in ("core::option::Option::<T>::is_some", "core::result::Result::<T, E>::is_ok") or not isinstance(v, bool) or not e[2]:
        return None
    inner = e[2][0]
    if inner[0] != "call" or not isinstance(inner[1], str) or not (inner[1].startswith("darling_core::") or inner[1].startswith("<darling_core::")):
        return None
    key = (id(crate), repr(inner), v, DEEP)
    if key in _HRA:
        return _HRA[key]
    _HRA[key] = None
    from . import resalg as _ra
    try:
        rows = _ra.Algebra(crate).inline_private(inner[1], inner[2], inner[3] if len(inner) > 3 else (), any_vis=DEEP)
    except RuntimeError:
        rows = None
    if not rows or len(rows) > 6:
        return None
    yes = (_ra.SOME, _ra.OK)
    allv = (_ra.SOME, _ra.NONE, _ra.OK, _ra.ERR)
    if not all(hv[0] == "agg" and hv[1] in allv for _, hv in rows):
        return None
    out = []
    for conds, hv in rows:
        if (hv[1] in yes) == v:
            out.append(tuple((x, y) for (x, y) in conds if x[0] not in ("pc-of", "effect")))
    res = out or None
    _HRA[key] = res
    return res


def _option_combinator_alternatives(crate, a):
    """`a.zip(b).is_some()` is `a.is_some() && b.is_some()`; `x.filter(p).is_some()` is
    `x.is_some() && p(payload of x)`"""
    e, v = a
    if e[0] == "call" and e[1] in ("core::option::Option::<T>::map_or", "core::option::Option::<T>::is_some_and") and isinstance(v, bool):
        # `x.map_or(d, p)` as a condition: `d` when x is None, `p(payload)` when it is Some
        from . import resalg as _ra
        IS = lambda x: ("call", "core::option::Option::<T>::is_some", (x,), ())
        if e[1].endswith("map_or") and len(e[2]) == 3:
            x, d, cl = e[2]
            dflt = _const_bool(d[1]) if d[0] == "const" else None
        elif e[1].endswith("is_some_and") and len(e[2]) == 2:
            x, cl = e[2]
            dflt = False
        else:
            return None
        if dflt is None or cl[0] != "closure":
            return None
        dnf = _closure_dnf(crate, cl[1])
        if dnf is None:
            return None
        pay = ("field", ("variant", x, "Some"), "0")
        sub = lambda t_: strip_transparent(_ra._subst_closure(t_, cl[2], [pay]))
        dnf = [tuple(normalise_atom(sub(x_), y_) if isinstance(y_, bool) else (sub(x_), y_) for (x_, y_) in d_) for d_ in dnf]
        pos = [((IS(x), True),) + d_ for d_ in dnf]
        neg = [((IS(x), True),)]
        for d_ in dnf:
            nxt = []
            for partial in neg:
                for atom in d_:
                    for ng in _negate_atom(atom):
                        nxt.append(partial + (ng,))
            neg = nxt
            if len(neg) > 32:
                return None
        none_case = [((IS(x), False),)]
        if v:
            return pos + (none_case if dflt else [])
        return neg + ([] if dflt else none_case)
    if e[0] != "call" or e[1] != "core::option::Option::<T>::is_some" or not isinstance(v, bool) or not e[2]:
        return None
    inner = e[2][0]
    if inner[0] != "call" or not isinstance(inner[1], str):
        return None
    IS = lambda x: ("call", "core::option::Option::<T>::is_some", (x,), ())
    if inner[1] == ZIP and len(inner[2]) == 2:
        x, y = inner[2]
        if v:
            return [((IS(x), True), (IS(y), True))]
        return [((IS(x), False),), ((IS(y), False),)]
    if inner[1] == FILTER and len(inner[2]) == 2 and inner[2][1][0] == "closure":
        from . import resalg as _ra
        x, cl = inner[2]
        dnf = _closure_dnf(crate, cl[1])
        if dnf is None:
            return None
        pay = ("field", ("variant", x, "Some"), "0")
        sub = lambda t_: strip_transparent(_ra._subst_closure(t_, cl[2], [pay]))
        dnf = [tuple(normalise_atom(sub(x_), y_) if isinstance(y_, bool) else (sub(x_), y_) for (x_, y_) in d) for d in dnf]
        if v:
            return [((IS(x), True),) + d for d in dnf]
        alts = [((IS(x), False),)]
        neg = [((IS(x), True),)]
        for d in dnf:
            nxt = []
            for partial in neg:
                for atom in d:
                    for ng in _negate_atom(atom):
                        nxt.append(partial + (ng,))
            neg = nxt
            if len(neg) > 32:
                return None
        return alts + neg
    return None


# ---------------------------------------------------------------------- atoms and path conditions

OPTION_LIKE = {"None": False, "Some": True}
RESULT_LIKE = {"Err": False, "Ok": True}


_INT = re.compile(r"^(?:const )?(-?\d+)_(?:usize|isize|u8|u16|u32|u64|u128|i8|i16|i32|i64|i128)$")


def _const_int(e):
    if e[0] != "const":
        return None
    m = _INT.match(e[1])
    return int(m.group(1)) if m else None


IS_EMPTY = {
    "alloc::vec::Vec::<T, A>::is_empty": "alloc::vec::Vec::<T, A>::len",
    "core::slice::<impl [T]>::is_empty": "core::slice::<impl [T]>::len",
    "core::str::<impl str>::is_empty": "core::str::<impl str>::len",
    "alloc::string::String::is_empty": "alloc::string::String::len",
    "syn::punctuated::Punctuated::<T, P>::is_empty": "syn::punctuated::Punctuated::<T, P>::len",
}


def _const_bool(text):
    if text in ("const true", "true"):
        return True
    if text in ("const false", "false"):
        return False
    return None


def normalise_atom(expr, value):
    """Return (expr, value) in normal form.  value: bool | int | variant name | ('not-in', (...))."""
    expr = strip_transparent(expr)
    while True:
        k = expr[0]
        if k == "not" and isinstance(value, bool):
            expr, value = expr[1], (not value)
            continue
        if k == "call" and not isinstance(expr[1], tuple):
            c = expr[1]
            if c == "core::option::Option::<T>::is_none" and isinstance(value, bool):
                expr = ("call", "core::option::Option::<T>::is_some", expr[2], expr[3] if len(expr) > 3 else ())
                value = not value
                continue
            if c == "core::result::Result::<T, E>::is_err" and isinstance(value, bool):
                expr = ("call", "core::result::Result::<T, E>::is_ok", expr[2], expr[3] if len(expr) > 3 else ())
                value = not value
                continue
            if c == "core::option::Option::<T>::is_some" and isinstance(value, bool) and expr[2] and expr[2][0][0] == "call" and expr[2][0][1] in SOME_PRESERVING and expr[2][0][2]:
                # `x.map(f).is_some()` is `x.is_some()`
                expr = ("call", c, (strip_transparent(expr[2][0][2][0]),), ())
                continue
            if c == "core::option::Option::<T>::is_some" and isinstance(value, bool) and expr[2] and expr[2][0][0] == "call" and expr[2][0][1] in FIRST_CALLS:
                # `x.first().is_some()` is `x.len() != 0`
                inner = expr[2][0]
                return ("call", FIRST_CALLS[inner[1]], inner[2], ()), (("not-in", (0,)) if value else 0)
            if c in IS_EMPTY and isinstance(value, bool):
                # `x.is_empty()` / `x.len() == 0` / `match x.len() { 0 => .. }` are one test
                return ("call", IS_EMPTY[c], expr[2], ()), (0 if value else ("not-in", (0,)))
            if c == "is_variant" and isinstance(value, bool):
                v = expr[2][1][1]
                return ("discr", strip_transparent(expr[2][0])), (v if value else ("not-in", (v,)))
            if c in ("<bool as core::cmp::PartialEq>::eq", "<bool as core::cmp::PartialEq>::ne") and isinstance(value, bool):
                a, bb = expr[2][0], expr[2][1]
                cb = _const_bool(bb[1]) if bb[0] == "const" else None
                if cb is not None:
                    expr = a
                    value = (value == cb) if c.endswith("::eq") else (value != cb)
                    continue
        if k == "bin" and expr[1] in ("Eq", "Ne") and isinstance(value, bool):
            op, a, bb = expr[1], expr[2], expr[3]
            red = None
            for x, y in ((a, bb), (bb, a)):
                if y[0] == "const" and _const_bool(y[1]) is not None:
                    cb = _const_bool(y[1])
                    red = (x, (value == cb) if op == "Eq" else (value != cb))
                    break
            if red is None:
                # `x == 3` / `x != 3` / `match x { 3 => .. }` all read `x=3` or `x not-in (3,)`
                for x, y in ((a, bb), (bb, a)):
                    ci = _const_int(y)
                    if ci is not None:
                        same = value if op == "Eq" else (not value)
                        return x, (ci if same else ("not-in", (ci,)))
                if op == "Ne":
                    expr, value = ("bin", "Eq", a, bb), (not value)
                return expr, value
            expr, value = red
            continue
        if k == "bin" and expr[1] in ("Le", "Ge") and isinstance(value, bool) and (_const_int(expr[2]) is not None or _const_int(expr[3]) is not None):
            # integer comparisons: `a <= n` is `!(a > n)` (floats are left alone: NaN)
            expr, value = ("bin", "Gt" if expr[1] == "Le" else "Lt", expr[2], expr[3]), (not value)
            continue
        if k == "bin" and expr[1] == "Lt" and isinstance(value, bool) and _const_int(expr[3]) is not None and _const_int(expr[3]) >= 1 and _const_int(expr[2]) is None:
            # one spelling for integer thresholds: `a < n` is `!(a > n-1)` (so `len >= 2`, `len > 1`
            # and a slice pattern `[_, _, ..]` read alike)
            n = _const_int(expr[3])
            suffix = expr[3][1][len(str(n)):] if expr[3][1].startswith(str(n)) else ""
            if expr[3][1].startswith("const "):
                suffix = expr[3][1][len("const ") + len(str(n)):]
                new = "const %d%s" % (n - 1, suffix)
            else:
                new = "%d%s" % (n - 1, suffix)
            expr, value = ("bin", "Gt", expr[2], ("const", new)), (not value)
            continue
        if k == "discr":
            inner = expr[1]
            if isinstance(value, str):
                if value in OPTION_LIKE:
                    expr, value = ("call", "core::option::Option::<T>::is_some", (inner,), ()), OPTION_LIKE[value]
                    if inner[0] == "call" and (inner[1] in FIRST_CALLS or inner[1] in SOME_PRESERVING):
                        continue        # `match x.first() { Some(..) .. }` is a test of `x.len()`; `match x.map(f)` of x
                    return expr, value
                if value in RESULT_LIKE:
                    return ("call", "core::result::Result::<T, E>::is_ok", (inner,), ()), RESULT_LIKE[value]
                if value in ("Continue", "Break") and inner[0] == "call" and not isinstance(inner[1], tuple) and inner[1].endswith("core::ops::try_trait::Try>::branch"):
                    arg = inner[2][0]
                    if "core::option::Option<" in inner[1]:
                        return ("call", "core::option::Option::<T>::is_some", (arg,), ()), value == "Continue"
                    return ("call", "core::result::Result::<T, E>::is_ok", (arg,), ()), value == "Continue"
        return expr, value


def atom_str(expr, value, sym=None):
    return "%s=%s" % (show(expr, sym), value)


class PathCond:
    """Path conditions of blocks over the loop-free normal CFG."""

    def __init__(self, body, sym=None):
        self.b = body
        self.sym = sym or Sym(body)
        self._edge_atoms = {}
        self._back = None

    # atoms on one CFG edge --------------------------------------------------------------
    def switch_expr(self, blk):
        t = self.b.term(blk)
        if t["k"] != "switch":
            return None
        return self.sym.operand(t["discr"])

    def edge_atom(self, src, label):
        """Atom (expr, value) carried by edge `label` out of block `src`, or None."""
        key = (src, label)
        if key in self._edge_atoms:
            return self._edge_atoms[key]
        t = self.b.term(src)
        res = None
        if t["k"] == "switch" and label[0] == "sw":
            e = self.sym.operand(t["discr"])
            dty = self._operand_ty(t["discr"])
            vals = [v for v, _ in t["targets"]]
            val = label[1]
            if dty == "bool":
                if val == "otherwise":
                    v = True if vals == [0] else (False if vals == [1] else None)
                else:
                    v = bool(val)
                if v is not None:
                    res = normalise_atom(e, v)
            elif e[0] == "discr":
                variants = self._discr_variants(t["discr"])
                if variants:
                    by_val = {x["val"]: x["name"] for x in variants}
                    if val == "otherwise":
                        rest = [n for vv, n in by_val.items() if vv not in vals]
                        if len(rest) == 1:
                            res = normalise_atom(e, rest[0])
                        else:
                            res = (strip_transparent(e), ("not-in", tuple(sorted(by_val.get(vv, str(vv)) for vv in vals))))
                    else:
                        res = normalise_atom(e, by_val.get(val, str(val)))
                else:
                    res = (strip_transparent(e), val if val != "otherwise" else ("not-in", tuple(sorted(vals))))
            else:
                if val == "otherwise":
                    res = (strip_transparent(e), ("not-in", tuple(sorted(vals))))
                else:
                    res = (strip_transparent(e), val)
        self._edge_atoms[key] = res
        return res

    def _operand_ty(self, o):
        if o["k"] in ("copy", "move"):
            return o["p"]["ty"]
        return o.get("ty")

    def _discr_variants(self, o):
        """Find the `discriminant(place)` rvalue defining the switch operand and return its variant table."""
        if o["k"] not in ("copy", "move"):
            return None
        l = o["p"]["local"]
        for d in self.b.defs().get(l, []):
            if d[2] == "assign" and d[3]["r"]["k"] == "discr":
                return d[3]["r"].get("variants")
        return None

    # loop-free CFG -----------------------------------------------------------------------
    def back_edges(self):
        if self._back is None:
            back = set()
            for b in self.b.normal_blocks():
                for lab, tb in self.b.succ_edges(b):
                    if self.b.dominates(tb, b):
                        back.add((b, tb))
            self._back = back
        return self._back

    def conditions(self, target, relevant=None, cap=512, keep_phi=False):
        """Projected DNF of the path condition of block `target`: a set of frozensets of atoms
        (expr, value).  `relevant(expr, value)` filters atoms; None keeps all (may be large)."""
        back = self.back_edges()
        reach = self.b.normal_blocks()
        preds = self.b.preds()
        memo = {}
        order = []
        # blocks that can reach target (backwards, ignoring back edges)
        need = set()
        st = [target]
        while st:
            x = st.pop()
            if x in need or x not in reach:
                continue
            need.add(x)
            for (p, lab) in preds.get(x, []):
                if (p, x) not in back:
                    st.append(p)

        def topo():
            indeg = {x: 0 for x in need}
            for x in need:
                for (p, lab) in preds.get(x, []):
                    if p in need and (p, x) not in back:
                        indeg[x] += 1
            q = [x for x in need if indeg[x] == 0]
            while q:
                x = q.pop()
                order.append(x)
                for lab, tb in self.b.succ_edges(x):
                    if tb in need and (x, tb) not in back:
                        indeg[tb] -= 1
                        if indeg[tb] == 0:
                            q.append(tb)

        topo()
        phi = self._phi()
        for x in order:
            if x == 0 or not any(p in need and (p, x) not in back for (p, lab) in preds.get(x, [])):
                acc = {frozenset()}
            else:
                acc = set()
            for (p, lab) in preds.get(x, []):
                if p not in need or (p, x) in back or p not in memo:
                    continue
                a0 = self.edge_atom(p, lab)
                pdefs = phi["by_block"].get(p)
                for cs in memo[p]:
                    if pdefs:
                        cs = self._apply_phi_defs(cs, pdefs)
                    a = a0
                    if a is not None and phi["locals"] and _mentions_local(a[0], phi["locals"]):
                        env = {e[1]: v for (e, v) in cs if e[0] == "phi"}
                        a = normalise_atom(subst_locals(a[0], env), a[1])
                    if a is not None:
                        f = fold_atom(a[0], a[1])
                        if f is False:
                            continue      # infeasible edge on this path
                        if f is True:
                            a = None
                    if a is not None and a[0][0] in ("local", "const"):
                        a = None  # drop flags and other unresolved multi-definition locals
                    if a is not None and relevant is not None and not relevant(a[0], a[1]):
                        a = None
                    if a is None:
                        acc.add(cs)
                        continue
                    # a private predicate of the crate (`fn peek_lit(input) -> bool { a && !(b && c) }`)
                    # reads as the condition it computes: one alternative per disjunct
                    alts = predicate_alternatives(self.b.crate, a) or [(a,)]
                    for alt in alts:
                        cur = cs
                        for a1 in alt:
                            if relevant is not None and not relevant(a1[0], a1[1]):
                                continue
                            f1 = fold_atom(a1[0], a1[1])
                            if f1 is True:
                                continue
                            if f1 is False:
                                cur = None
                                break
                            cur = _add_atom(cur, a1)
                            if cur is None:
                                break
                        if cur is not None:
                            acc.add(cur)
            # forget phi values that no later switch reads
            if phi["locals"] and not keep_phi:
                acc = {frozenset(at for at in cs if at[0][0] != "phi" or x in phi["live"].get(at[0][1], ())) for cs in acc}
            acc = _absorb(acc)
            if len(acc) > cap:
                raise RuntimeError("path condition too large for bb%d in %s" % (x, self.b.key))
            memo[x] = acc
        res = memo.get(target, set())
        if phi["locals"] and not keep_phi:
            res = _absorb({frozenset(at for at in cs if at[0][0] != "phi") for cs in res})
        return _count_closure(res)

    # phi locals ----------------------------------------------------------------------------
    def _phi(self):
        """Locals assigned once on each of several mutually exclusive paths (the value of a
        `match`/`if` expression bound to a variable).  A switch on such a local is expanded per
        path into the condition on the value assigned on that path."""
        if getattr(self, "_phi_cache", None) is not None:
            return self._phi_cache
        b = self.b
        out = {"locals": set(), "by_block": {}, "live": {}}
        self._phi_cache = out
        reach_memo = {}

        back = self.back_edges()

        def fwd(x):
            # forward reachability within one loop iteration (back edges are not followed): borrowck's
            # definite-initialisation rule puts one definition on every such path to a use
            if x not in reach_memo:
                seen = set()
                st = [x]
                while st:
                    y = st.pop()
                    if y in seen:
                        continue
                    seen.add(y)
                    st.extend(tb for _, tb in b.succ_edges(y) if (y, tb) not in back)
                reach_memo[x] = seen
            return reach_memo[x]

        cands = {}
        for l, ds in b.defs().items():
            if l == 0 or 1 <= l <= b.arg_count or l in self.sym.opaque:
                continue
            whole = [d for d in ds if d[2] in ("assign", "call") and not b.is_cleanup(d[0])]
            other = [d for d in ds if d[2] not in ("assign", "call") and not b.is_cleanup(d[0])]
            if len(whole) < 2 or other:
                continue
            if self.sym.local(l) != ("local", l):
                continue
            blocks = [d[0] for d in whole]
            if len(set(blocks)) != len(blocks):
                continue
            # mutually exclusive definitions: no def can flow into another one
            excl = True
            for d in whole:
                nxt = set()
                for _, tb in b.succ_edges(d[0]):
                    if (d[0], tb) not in back:
                        nxt |= fwd(tb)
                if any(o[0] in nxt for o in whole):
                    excl = False
                    break
            if excl:
                cands[l] = whole
        if not cands:
            return out
        out["locals"] = set(cands)
        exprs = {}
        for l, whole in cands.items():
            for d in whole:
                e = strip_transparent(self.sym._def_expr(d, 0))
                exprs[(l, d[0])] = e
                out["by_block"].setdefault(d[0], []).append((l, e))
        # liveness: blocks from which a reader of the phi local is still ahead
        preds = b.preds()
        readers = {l: set() for l in cands}
        for blk in b.normal_blocks():
            t = b.term(blk)
            if t["k"] == "switch":
                e = self.sym.operand(t["discr"])
                for l in cands:
                    if _mentions_local(e, {l}):
                        readers[l].add(blk)
        for (l2, blk), e in exprs.items():
            for l in cands:
                if l != l2 and _mentions_local(e, {l}):
                    readers[l].add(blk)
        for l, rs in readers.items():
            live = set()
            st = list(rs)
            while st:
                x = st.pop()
                if x in live:
                    continue
                live.add(x)
                st.extend(p for p, _ in preds.get(x, []))
            out["live"][l] = live
        return out

    def _apply_phi_defs(self, cs, pdefs):
        env = {e[1]: v for (e, v) in cs if e[0] == "phi"}
        cur = set(cs)
        for l, e in pdefs:
            if _mentions_local(e, set(env)):
                e = subst_locals(e, env)
            cur = {at for at in cur if not (at[0][0] == "phi" and at[0][1] == l)}
            cur.add((("phi", l), e))
            env[l] = e
        return frozenset(cur)


    def dominating_atoms(self, target):
        """Atoms of the switch edges that dominate `target` (conjunction; sound, possibly weaker)."""
        edges = self.b.dominating_edges(target)
        out = []
        if edges is None:
            return None
        for (s, d, lab) in edges:
            a = self.edge_atom(s, lab)
            if a is not None:
                out.append(a)
        return out


def _add_atom(cs, a):
    """cs ∧ a, or None when contradictory; implied atoms are not repeated, exclusions are merged"""
    implied = False
    weaker = []
    for (e2, v2) in cs:
        if e2 == a[0]:
            if _contradict(v2, a[1]):
                return None
            if _implies(v2, a[1]):
                implied = True
            elif _implies(a[1], v2):
                weaker.append((e2, v2))
    if implied:
        return cs
    if isinstance(a[1], tuple) and a[1] and a[1][0] == "not-in":
        others = [(e2, v2) for (e2, v2) in cs if e2 == a[0] and isinstance(v2, tuple) and v2 and v2[0] == "not-in"]
        if others:
            vals = set(a[1][1])
            for _, v2 in others:
                vals |= set(v2[1])
            try:
                merged = tuple(sorted(vals))
            except TypeError:
                merged = tuple(sorted(vals, key=str))
            a = (a[0], ("not-in", merged))
            weaker = weaker + others
    return (cs - frozenset(weaker)) | {a}


def _is_count(x):
    """an expression that denotes a length (a non-negative integer)"""
    return x[0] == "len" or (x[0] == "call" and isinstance(x[1], str) and x[1].endswith("::len"))


def _count_closure(dnf):
    """Integer reasoning on lengths: `len > 1` false and `len != 0` is `len = 1`; `len > 1` true
    excludes 0 and 1.  A three-arm `match len {0, 1, _}` and a chain of guards read alike."""
    out = set()
    for cs in dnf:
        by = {}
        for (e, v) in cs:
            if e[0] == "bin" and e[1] == "Gt" and isinstance(v, bool) and _is_count(e[2]) and _const_int(e[3]) is not None:
                by.setdefault(show(e[2]), []).append((e, v))
        if not by:
            out.add(cs)
            continue
        cur = cs
        for xs, gts in by.items():
            x = gts[0][0][2]
            same = [e for (e, v) in cur if show(e) == xs]
            if same:
                x = same[0]       # the spelling the equalities / exclusions already use
            lo = max([_const_int(e[3]) + 1 for (e, v) in gts if v] or [0])
            his = [_const_int(e[3]) for (e, v) in gts if not v]
            hi = min(his) if his else None
            excl, eq = set(), None
            for (e, v) in cs:
                if show(e) == xs:
                    if isinstance(v, tuple) and v and v[0] == "not-in":
                        excl |= {y for y in v[1] if isinstance(y, int)}
                    elif isinstance(v, int) and not isinstance(v, bool):
                        eq = v
            if eq is not None:
                if eq < lo or (hi is not None and eq > hi):
                    cur = None
                    break
                continue
            if hi is not None and hi - lo <= 4:
                allowed = [k for k in range(lo, hi + 1) if k not in excl]
                if not allowed:
                    cur = None
                    break
                if len(allowed) == 1:
                    cur = frozenset(at for at in cur if show(at[0]) != xs) | {(x, allowed[0])}
                    continue
            if 0 < lo <= 4:
                cur = _add_atom(cur, (x, ("not-in", tuple(range(lo)))))
                if cur is None:
                    break
        if cur is not None:
            out.add(cur)
    return out


def _negate_atom(a):
    """alternatives (list of atoms) whose disjunction is the negation of atom a"""
    e, v = a
    if isinstance(v, bool):
        return [(e, not v)]
    if isinstance(v, tuple) and v and v[0] == "not-in":
        return [(e, x) for x in v[1]]
    return [(e, ("not-in", (v,)))]


_PRED = {}


def predicate_dnf(crate, name, any_vis=False):
    """(arg_count, DNF) for a private, loop-free bool fn of the crate: the conditions over its
    parameters under which it returns true (at most 4 disjuncts of at most 4 atoms), else None"""
    key = (id(crate), name, any_vis)
    if key in _PRED:
        return _PRED[key]
    _PRED[key] = None
    accessor_summary(crate, name)
    raws = crate["_raw_by_key"].get(name)
    if not raws or len(raws) != 1:
        return None
    raw = raws[0]
    if raw["kind"] not in ("Fn", "AssocFn") or not (any_vis or str(raw.get("vis", "")).startswith("Restricted")) or len(raw["blocks"]) > 30:
        return None
    from .mir import Body
    cb = Body(raw, crate)
    if cb.derived or cb.local_ty(0) != "bool" or cb.arg_count == 0:
        return None
    for l in range(1, cb.arg_count + 1):
        if cb.local_ty(l).startswith("&mut "):
            return None
    s = Sym(cb)
    pc = PathCond(cb, s)
    if pc.back_edges():
        return None
    true = set()

    def values(l, want, depth=0):
        for d in cb.defs().get(l, []):
            blk, i, kind, node = d
            if cb.is_cleanup(blk) or kind not in ("assign", "call"):
                continue
            e = strip_transparent(s._def_expr(d, 0))
            w = want
            while e[0] == "not":
                e, w = e[1], not w
            if e[0] == "local" and len(e) == 2 and e[1] != l and depth < 5:
                for x in values(e[1], w, depth + 1):
                    yield x
            else:
                yield blk, e, w

    try:
        for blk, e, want in values(0, True):
            cbool = _const_bool(e[1]) if e[0] == "const" else None
            if cbool is not None and cbool != want:
                continue
            for cs in pc.conditions(blk):
                if cbool is not None:
                    true.add(cs)
                else:
                    a = normalise_atom(e, want)
                    c2 = _add_atom(cs, a)
                    if c2 is not None:
                        true.add(c2)
    except RuntimeError:
        return None
    true = _absorb(true)
    if not true or len(true) > 4 or any(len(d) > 4 or len(d) == 0 for d in true):
        return None
    if not all(_closed(e) for d in true for (e, v) in d):
        return None
    res = (cb.arg_count, [tuple(sorted(d, key=repr)) for d in sorted(true, key=repr)])
    _PRED[key] = res
    if not any_vis:
        INLINED[name] = " | ".join(" & ".join(atom_str(e, v) for e, v in d) for d in res[1])
    return res


def _helper_variant_alternatives(crate, a):
    """`discr(helper(x)) = V` for a loop-free helper of the crate whose every return is a visible
    constructor: the conditions of the cases that build variant V"""
    e, v = a
    if e[0] != "discr" or e[1][0] != "call" or not isinstance(e[1][1], str) or not (e[1][1].startswith("darling_core::") or e[1][1].startswith("<darling_core::")):
        return None
    from . import resalg as _ra
    inner = e[1]
    try:
        rows = _ra.Algebra(crate).inline_private(inner[1], inner[2], inner[3] if len(inner) > 3 else (), any_vis=DEEP)
    except RuntimeError:
        return None
    if not rows or len(rows) > 8 or not all(hv[0] == "agg" and "::" in str(hv[1]) for _, hv in rows):
        return None
    out = []
    for conds, hv in rows:
        var = str(hv[1]).rsplit("::", 1)[-1]
        if isinstance(v, tuple) and v and v[0] == "not-in":
            hit = var not in v[1]
        else:
            hit = var == v
        if hit:
            out.append(tuple((x, y) for (x, y) in conds if x[0] not in ("pc-of", "effect")))
    return out or None


def predicate_alternatives(crate, a, any_vis=False):
    """alternatives (tuples of atoms) for atom `pred(args)=bool` when pred has a DNF summary"""
    e, v = a
    if e[0] == "discr":
        return _helper_variant_alternatives(crate, a)
    if e[0] != "call" or isinstance(e[1], tuple) or not isinstance(v, bool):
        return None
    comb = _option_combinator_alternatives(crate, a)
    if comb is not None:
        return comb
    comb = _helper_result_alternatives(crate, a)
    if comb is not None:
        return comb
    # a predicate applied to something that can be looked into (the result of a crate fn, a visible
    # constructor) is read by its definition whatever its visibility
    if DEEP and not any_vis and e[2] and any(isinstance(x, tuple) and x and (x[0] == "agg" or (x[0] == "call" and isinstance(x[1], str) and "darling_core::" in x[1][:16])) for x in e[2]):
        any_vis = True
    summ = predicate_dnf(crate, e[1], any_vis)
    if summ is None or summ[0] != len(e[2]):
        return None
    dnf = [tuple(normalise_atom(subst_params(x, e[2]), val) for (x, val) in d) for d in summ[1]]
    if v:
        return dnf
    # ¬(D1 ∨ D2 ∨ ..) = ∧ ¬Di ; ¬Di = ∨ of the negated atoms
    alts = [()]
    for d in dnf:
        nxt = []
        for partial in alts:
            for atom in d:
                for neg in _negate_atom(atom):
                    nxt.append(partial + (neg,))
        alts = nxt
        if len(alts) > 64:
            return None
    return alts


def _mentions_local(e, locs):
    if not isinstance(e, tuple) or not e:
        return False
    if e[0] == "local" and len(e) == 2:
        return e[1] in locs
    return any(_mentions_local(x, locs) for x in e if isinstance(x, tuple))


def subst_locals(e, env):
    if not isinstance(e, tuple) or not e:
        return e
    if e[0] == "local" and len(e) == 2 and e[1] in env:
        return env[e[1]]
    return tuple(subst_locals(x, env) if isinstance(x, tuple) else x for x in e)


def fold_atom(expr, value):
    """True: the atom holds trivially; False: it cannot hold; None: not decided."""
    k = expr[0]
    if k == "const":
        cb = _const_bool(expr[1])
        if cb is not None and isinstance(value, bool):
            return cb == value
        return None
    if k == "call" and not isinstance(expr[1], tuple) and isinstance(value, bool) and expr[2]:
        inner = expr[2][0]
        if inner[0] == "agg" and "::" in inner[1]:
            vname = inner[1].rsplit("::", 1)[-1]
            if expr[1] == "core::option::Option::<T>::is_some" and vname in OPTION_LIKE:
                return OPTION_LIKE[vname] == value
            if expr[1] == "core::result::Result::<T, E>::is_ok" and vname in RESULT_LIKE:
                return RESULT_LIKE[vname] == value
    if k == "discr" and expr[1][0] == "agg" and "::" in expr[1][1]:
        vname = expr[1][1].rsplit("::", 1)[-1]
        if isinstance(value, str):
            return vname == value
        if isinstance(value, tuple) and value and value[0] == "not-in":
            return vname not in value[1]
    return None


def _contradict(v1, v2):
    if v1 == v2:
        return False
    n1 = isinstance(v1, tuple) and v1 and v1[0] == "not-in"
    n2 = isinstance(v2, tuple) and v2 and v2[0] == "not-in"
    if n1 and n2:
        return False
    if n1:
        return v2 in v1[1]
    if n2:
        return v1 in v2[1]
    return True


def _implies(v1, v2):
    """value constraint v1 on an expression implies constraint v2 on the same expression"""
    if v1 == v2:
        return True
    n1 = isinstance(v1, tuple) and v1 and v1[0] == "not-in"
    n2 = isinstance(v2, tuple) and v2 and v2[0] == "not-in"
    if n2 and not n1:
        return v1 not in v2[1]
    if n1 and n2:
        return set(v2[1]) <= set(v1[1])
    return False


def _absorb(sets):
    """Simplify a DNF: merge disjuncts that differ in one complementary boolean atom, then remove
    disjuncts that are supersets of another one."""
    cur = set(sets)
    changed = True
    while changed and len(cur) > 1:
        changed = False
        lst = list(cur)
        for i in range(len(lst)):
            for j in range(i + 1, len(lst)):
                a, b = lst[i], lst[j]
                if len(a) != len(b):
                    continue
                da, db = a - b, b - a
                if len(da) == 1 and len(db) == 1:
                    (ea, va), = da
                    (eb, vb), = db
                    if ea == eb and isinstance(va, bool) and isinstance(vb, bool) and va != vb:
                        cur.discard(a)
                        cur.discard(b)
                        cur.add(a & b)
                        changed = True
                        break
            if changed:
                break
    out = []
    for s in sorted(cur, key=len):
        if any(o <= s for o in out):
            continue
        out.append(s)
    return set(out)

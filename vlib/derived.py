"""Structured model of a derive-generated function recovered from its MIR (Level B).

The generated code is regular (see DESIGN.md section 8): slots `(bool, Option<T>)` named after
the receiver's fields, one `Accumulator` named `__errors`, a name dispatch made of
`<str as PartialEq>::eq(__name, "const")` tests, one `handle(…)` per extraction, one `finish`.
The model is recovered from resolved callees and debug info only; a function that does not fit
is reported as such (fail closed) rather than skipped.
"""
import re

from . import mir
from .sym import Sym, PathCond, show, strip_transparent

ACC = "darling_core::error::Accumulator"
STR_EQ = "core::str::traits::<impl core::cmp::PartialEq for str>::eq"


class DerivedFn:
    def __init__(self, body):
        self.b = body
        self.sym = Sym(body)
        self.pc = PathCond(body, self.sym)
        self.names = body.debug_names()
        self.trait = (body.impl or {}).get("trait")
        self.method = body.key.rsplit("::", 1)[-1]
        self._scan()

    def _scan(self):
        b = self.b
        self.acc_locals = [l["id"] for l in b.locals if l["ty"]["s"] == ACC]
        self.acc_named = [l for l in self.acc_locals if self.names.get(l) in ("__errors", "variant_errors")]
        self.slots = {}     # local -> field name, single-value slots
        self.multi = {}     # local -> field name, `multiple` slots (Vec-like, declared via Default)
        for l, n in self.names.items():
            ty = b.local_ty(l)
            if ty.startswith("(bool, core::option::Option<") and not n.startswith("__"):
                self.slots[l] = n
        self.sym.opaque = set(self.slots)
        self.sym._cache = {}
        self.calls = []
        for blk, t in b.calls():
            c = mir.callee_of(t)
            self.calls.append((blk, c, t))
        self.name_tests = []   # (call blk, const, switch blk, true target, false target)
        for blk, c, t in self.calls:
            if c == STR_EQ and len(t["args"]) == 2:
                k = self.sym.operand(t["args"][1])
                if k[0] == "const" and t["target"] is not None:
                    sw = t["target"]
                    st = b.term(sw)
                    # the switch may be in the call's target block or one goto further
                    for _ in range(3):
                        if st["k"] == "switch":
                            break
                        if st["k"] == "goto":
                            sw = st["target"]
                            st = b.term(sw)
                    if st["k"] == "switch":
                        tt = st["otherwise"]
                        ft = dict((v, x) for v, x in st["targets"]).get(0)
                        self.name_tests.append((blk, _unq(k[1]), sw, tt, ft, self.sym.show(self.sym.operand(t["args"][0]))))
        self.finishes = [(blk, t) for blk, c, t in self.calls if c in (ACC + "::finish", ACC + "::finish_with")]
        self.creates = [(blk, t) for blk, c, t in self.calls if c in ("darling_core::error::Error::accumulator", "<%s as core::default::Default>::default" % ACC)]
        self.ok_blocks = []
        for blk, i, st in b.stmts():
            if st["k"] == "assign" and st["p"]["local"] == 0 and not st["p"]["proj"] and st["r"]["k"] == "aggregate" and st["r"].get("variant") == "Ok":
                self.ok_blocks.append((blk, st))

    # ------------------------------------------------------------------ helpers
    def conds(self, blk):
        return [set("%s=%s" % (show(e, self.sym), v) for e, v in cs) for cs in self.pc.conditions(blk)]

    def calls_to(self, rx):
        r = re.compile(rx)
        return [(blk, t) for blk, c, t in self.calls if c and r.search(c)]

    def expr(self, node):
        if "k" in node and node["k"] in ("copy", "move", "const", "other"):
            return self.sym.show(strip_transparent(self.sym.operand(node)))
        if "local" in node:
            return self.sym.show(strip_transparent(self.sym.place(node)))
        return self.sym.show(strip_transparent(self.sym.rvalue(node)))

    def loop_headers(self):
        b = self.b
        hs = set()
        for blk in b.normal_blocks():
            for lab, tb in b.succ_edges(blk):
                if b.dominates(tb, blk):
                    hs.add(tb)
        return hs

    def slot_assignments(self, slot):
        """Whole-slot assignments `_slot = (const true, X)` outside the declaration."""
        out = []
        for d in self.b.defs().get(slot, []):
            blk, i, kind, node = d
            if self.b.is_cleanup(blk):
                continue
            if kind == "assign" and node["r"]["k"] == "aggregate" and node["r"]["agg"] == "tuple":
                ops = node["r"]["ops"]
                first = self.expr(ops[0]) if ops else ""
                out.append((blk, first, self.expr(ops[1]) if len(ops) > 1 else "", node))
        return out

    def field_assignments(self, slot, field):
        out = []
        for d in self.b.defs().get(slot, []):
            blk, i, kind, node = d
            if self.b.is_cleanup(blk):
                continue
            if kind in ("assign_proj", "call_proj"):
                p = node["p"] if kind == "assign_proj" else node["dest"]
                pr = [e for e in p["proj"] if e["k"] != "deref"]
                if pr and pr[0]["k"] == "field" and pr[0]["name"] == field:
                    out.append((blk, node))
        return out


def _unq(text):
    t = text[6:] if text.startswith("const ") else text
    if t.startswith('"') and t.endswith('"'):
        return t[1:-1]
    return t


def population(ctx, include_corpus=None):
    """Derived darling impl fns of the repo's tests and examples (closures excluded); in the
    thorough tier also those of the generated Level-B corpus."""
    out = []
    crates = list(ctx.test_crates())
    if include_corpus is None:
        include_corpus = ctx.tier == "thorough"
    if include_corpus:
        from props import corpus
        crates += corpus.corpus_crates(ctx)
    for c in crates:
        for b in ctx.all_bodies(c):
            if b.kind == "Closure" or not b.derived:
                continue
            tr = (b.impl or {}).get("trait") or ""
            if tr.startswith("darling_core::") or b.key.endswith("::__validate_body"):
                out.append(b)
    return out

"""Build, cache and load the fact files (DESIGN.md 2.1).

Facts are produced by the `mirdump` rustc_private driver injected with RUSTC_WORKSPACE_WRAPPER
under `cargo +nightly check --offline` into a fresh target directory.  They are cached under
/verif/.cache/<hash of every file of /repo + engines + corpus>; any edit to /repo changes the
hash, so a check always analyses the current working tree.
"""
import fcntl
import glob
import hashlib
import json
import os
import shutil
import subprocess
import sys
import tempfile
import time

VERIF = os.path.dirname(os.path.dirname(os.path.abspath(__file__)))
REPO = os.environ.get("VERIF_REPO", "/repo")
CACHE = os.path.join(VERIF, ".cache")
MIRDUMP_DIR = os.path.join(VERIF, "engines", "mirdump")
MIRDUMP = os.path.join(MIRDUMP_DIR, "target", "debug", "mirdump")
TPLSCAN_DIR = os.path.join(VERIF, "engines", "tplscan")
TPLSCAN = os.path.join(TPLSCAN_DIR, "target", "debug", "tplscan")

ENV_OFFLINE = {"CARGO_NET_OFFLINE": "true"}


def _hash_tree(root, h, skip=("target", ".git")):
    for dirpath, dirnames, filenames in os.walk(root):
        dirnames[:] = sorted(d for d in dirnames if d not in skip)
        for fn in sorted(filenames):
            p = os.path.join(dirpath, fn)
            if os.path.islink(p) or not os.path.isfile(p):
                continue
            h.update(os.path.relpath(p, root).encode())
            h.update(b"\0")
            with open(p, "rb") as f:
                h.update(f.read())
            h.update(b"\0")


def tree_hash(extra_dirs=()):
    h = hashlib.sha256()
    _hash_tree(REPO, h)
    for d in (os.path.join(MIRDUMP_DIR, "src"), os.path.join(TPLSCAN_DIR, "src")) + tuple(extra_dirs):
        if os.path.isdir(d):
            _hash_tree(d, h)
    return h.hexdigest()[:24]


def sysroot_lib():
    out = subprocess.run(["rustc", "+nightly", "--print", "sysroot"], capture_output=True, text=True, check=True)
    return os.path.join(out.stdout.strip(), "lib")


def _run(cmd, cwd, env=None, log=None):
    e = dict(os.environ)
    e.update(ENV_OFFLINE)
    if env:
        e.update(env)
    p = subprocess.run(cmd, cwd=cwd, env=e, stdout=subprocess.PIPE, stderr=subprocess.STDOUT, text=True)
    if log is not None:
        with open(log, "w") as f:
            f.write(p.stdout)
    return p


def ensure_engines():
    """Build the engines if their binaries are missing or older than their sources."""
    os.makedirs(CACHE, exist_ok=True)
    with open(os.path.join(CACHE, "engines.lock"), "w") as lk:
        fcntl.flock(lk, fcntl.LOCK_EX)
        for d, binp in ((MIRDUMP_DIR, MIRDUMP), (TPLSCAN_DIR, TPLSCAN)):
            if not os.path.isdir(d):
                continue
            src_m = max(os.path.getmtime(p) for p in glob.glob(os.path.join(d, "src", "*.rs")) + [os.path.join(d, "Cargo.toml")])
            if os.path.exists(binp) and os.path.getmtime(binp) >= src_m:
                continue
            p = _run(["cargo", "build", "--offline"], d)
            if p.returncode != 0 or not os.path.exists(binp):
                sys.stderr.write(p.stdout[-4000:])
                raise SystemExit("ENGINE-BUILD-FAILED %s" % d)


def _driver_run(out_dir, cwd, cargo_args, extra_env=None, log=None):
    tgt = tempfile.mkdtemp(prefix="verif-tgt-")
    try:
        env = {
            "LD_LIBRARY_PATH": sysroot_lib() + ":" + os.environ.get("LD_LIBRARY_PATH", ""),
            "RUSTFLAGS": "-Zmir-opt-level=0 -Awarnings",
            "RUSTC_WORKSPACE_WRAPPER": MIRDUMP,
            "MIRDUMP_OUT": out_dir,
            "MIRDUMP_PUBLIC": "darling",
            "CARGO_TARGET_DIR": tgt,
        }
        if extra_env:
            env.update(extra_env)
        p = _run(["cargo", "+nightly", "check", "--offline"] + cargo_args, cwd, env, log)
        return p
    finally:
        shutil.rmtree(tgt, ignore_errors=True)


RUNS = {
    # name: (cwd relative to REPO, cargo args)
    "r1": ("", ["--workspace", "--lib", "--tests", "--examples"]),
    "r4": ("", ["-p", "darling_core", "--lib", "--features", "diagnostics"]),
}


def facts_dir(run="r1"):
    """Return the directory with the fact files of `run` for the current /repo tree (building it
    if needed)."""
    ensure_engines()
    h = tree_hash()
    d = os.path.join(CACHE, h, run)
    done = os.path.join(d, "DONE")
    if os.path.exists(done):
        return d
    os.makedirs(os.path.join(CACHE, h), exist_ok=True)
    with open(os.path.join(CACHE, h, run + ".lock"), "w") as lk:
        fcntl.flock(lk, fcntl.LOCK_EX)
        if os.path.exists(done):
            return d
        if os.path.isdir(d):
            shutil.rmtree(d)
        os.makedirs(d)
        t0 = time.time()
        sub, args = RUNS[run]
        p = _driver_run(d, os.path.join(REPO, sub), args, log=os.path.join(d, "cargo.log"))
        if p.returncode != 0:
            sys.stderr.write(p.stdout[-6000:])
            shutil.rmtree(d, ignore_errors=True)
            raise SystemExit("FACT-BUILD-FAILED run=%s (the tree does not compile under the driver)" % run)
        n = len(glob.glob(os.path.join(d, "*.json")))
        if n == 0:
            shutil.rmtree(d, ignore_errors=True)
            raise SystemExit("FACT-BUILD-FAILED run=%s: the driver wrote no fact file" % run)
        with open(done, "w") as f:
            f.write("%d files %.1fs\n" % (n, time.time() - t0))
        _gc_cache(keep=h)
    return d


def corpus_facts(mode="base", seed=0):
    """Generate the Level-B corpus for the current tree, compile it under the driver and return
    (facts dir | None, crate dir, cargo log).  Cached per /repo tree hash + generator + mode/seed."""
    ensure_engines()
    h = tree_hash(extra_dirs=(os.path.join(VERIF, "tools"),))
    base = os.path.join(CACHE, h, "corpus-%s-%d" % (mode, seed))
    crate = os.path.join(base, "crate")
    fdir = os.path.join(base, "facts")
    done = os.path.join(base, "DONE")
    log = os.path.join(base, "cargo.log")
    os.makedirs(os.path.join(CACHE, h), exist_ok=True)
    with open(os.path.join(CACHE, h, "corpus-%s-%d.lock" % (mode, seed)), "w") as lk:
        fcntl.flock(lk, fcntl.LOCK_EX)
        if not os.path.exists(done):
            if os.path.isdir(base):
                shutil.rmtree(base)
            os.makedirs(fdir)
            g = _run([sys.executable, os.path.join(VERIF, "tools", "gen_corpus.py"), crate, mode, str(seed)], VERIF, {"VERIF_REPO": REPO})
            if g.returncode != 0:
                raise SystemExit("CORPUS-GENERATOR-FAILED\n" + g.stdout[-2000:])
            shutil.copy(os.path.join(REPO, "Cargo.lock"), os.path.join(crate, "Cargo.lock"))
            p = _driver_run(fdir, crate, ["--lib"], log=log)
            with open(done, "w") as f:
                f.write("rc=%d\n" % p.returncode)
        rc = int(open(done).read().strip().split("=")[1])
    text = open(log).read() if os.path.exists(log) else ""
    return (fdir if rc == 0 else None), crate, text


def _gc_cache(keep, max_entries=6):
    ents = [e for e in os.listdir(CACHE) if os.path.isdir(os.path.join(CACHE, e)) and e != keep]
    ents.sort(key=lambda e: os.path.getmtime(os.path.join(CACHE, e)))
    while len(ents) > max_entries:
        shutil.rmtree(os.path.join(CACHE, ents.pop(0)), ignore_errors=True)


def load_crates(run="r1"):
    d = facts_dir(run)
    crates = []
    for f in sorted(glob.glob(os.path.join(d, "*.json"))):
        with open(f) as fh:
            c = json.load(fh)
        c["_file"] = f
        crates.append(c)
    return crates

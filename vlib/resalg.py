"""Result algebra: the value a function returns, as cases over its parameters.

`r.map(f).or_else(g)`, `match r { Ok(v) => .., Err(e) => .. }`, `let v = r?; ..` and an early
`return Err(..)` are different spellings of one case table.  `cases(ctx, body)` returns that
table: a list of (frozenset of atoms (expr, value), value expression), where the combinators
map / map_err / and_then / or_else / ok_or / ok_or_else / `?` are expanded, closures are applied
to their argument, and constructor function pointers (`Ok`, `Some`, …) become aggregates.

Expressions are the tuples of vlib.sym.
"""
from . import sym as S
from .mir import Body

R = "core::result::Result::<T, E>::"
O = "core::option::Option::<T>::"
OK, ERR = "core::result::Result::Ok", "core::result::Result::Err"
SOME, NONE = "core::option::Option::Some", "core::option::Option::None"
IS_OK = "core::result::Result::<T, E>::is_ok"
IS_SOME = "core::option::Option::<T>::is_some"
CTOR_FNS = {OK: OK, ERR: ERR, SOME: SOME}


def _is_agg(e, name):
    return e[0] == "agg" and e[1] == name


def payload(e, variant):
    """the payload of `e` when it is the given variant (folds through a visible constructor)"""
    full = {"Ok": OK, "Err": ERR, "Some": SOME}[variant]
    if _is_agg(e, full) and e[2]:
        return e[2][0]
    return ("field", ("variant", e, variant), "0")


def _closure_body(crate, key):
    S.accessor_summary(crate, key)   # builds the key index
    raws = crate["_raw_by_key"].get(key)
    return Body(raws[0], crate) if raws else None


def _subst_closure(e, captures, args):
    """closure-body expression -> expression of the caller: captures `_1.i` and parameters"""
    if not isinstance(e, tuple) or not e:
        return e
    if e[0] == "field" and e[1][0] == "param" and e[1][1] == 1 and str(e[2]).isdigit() and int(e[2]) < len(captures):
        return captures[int(e[2])]
    if e[0] == "param" and len(e) == 3 and isinstance(e[1], int):
        if e[1] >= 2 and e[1] - 2 < len(args):
            return args[e[1] - 2]
        return ("closure-env",)
    return tuple(_subst_closure(x, captures, args) if isinstance(x, tuple) else x for x in e)


_INLINING = set()
SELF_SPANNING = ("darling_core::error::Error::unexpected_lit_type", "darling_core::error::Error::unexpected_expr_type")


import re as _re
_FROM = _re.compile(r"(core::convert::From<[^>]*(?:<[^>]*>[^>]*)*>>::from$|<impl core::convert::From<.*> for .*>::from$)")


def _residual_conversion(e):
    """does this `?` convert the error type (Result<_, E2> into Result<_, E1>, E1 != E2)?"""
    targs = e[3] if len(e) > 3 else ()
    if len(targs) >= 2:
        m1 = _re.match(r"^core::result::Result<.*, (.*)>$", targs[0])
        m2 = _re.match(r"^core::result::Result<core::convert::Infallible, (.*)>$", targs[1])
        if m1 and m2:
            return m1.group(1) != m2.group(1)
    return False


def _has_subterm(e, sub):
    if e == sub:
        return True
    return isinstance(e, tuple) and any(_has_subterm(x, sub) for x in e if isinstance(x, tuple))


def _replace_subterm(e, old, new):
    if e == old:
        return new
    if not isinstance(e, tuple):
        return e
    return tuple(_replace_subterm(x, old, new) if isinstance(x, tuple) else x for x in e)


_TRAITS = set()


def _subst_targs(e, tmap):
    """type arguments inside an inlined generic helper, named by the helper's own parameters, become
    the caller's type arguments"""
    if not tmap or not isinstance(e, tuple) or not e:
        return e
    if e[0] in ("call", "fnptr") and len(e) > 2 and isinstance(e[-1], tuple) and all(isinstance(x, str) for x in e[-1]):
        new = tuple(_re.sub(r"\b(%s)\b" % "|".join(map(_re.escape, tmap)), lambda m: tmap[m.group(1)], x) for x in e[-1])
        old = e[-1]
        e = e[:-1] + (new,)
        # `T::method(..)` on a type parameter that is now known: the call reads `<u8 as Trait>::method`
        # like the same call written at the concrete type
        if isinstance(e[1], str) and not e[1].startswith("<") and old and old[0] in tmap and "::" in e[1] and e[1].rsplit("::", 1)[0] in _TRAITS:
            tr, meth = e[1].rsplit("::", 1)
            e = (e[0], "<%s as %s>::%s" % (new[0], tr, meth)) + e[2:-1] + (new[1:],)
    return tuple(_subst_targs(x, tmap) if isinstance(x, tuple) and not (i == len(e) - 1 and e[0] in ("call", "fnptr") and all(isinstance(y, str) for y in x)) else x for i, x in enumerate(e))


class Algebra:
    def __init__(self, crate, depth=0):
        for i_ in crate.get("impls", []):
            if i_.get("trait"):
                _TRAITS.add(i_["trait"])
        self.crate = crate
        self.depth = depth
        self.body = None
        self.sym = None

    # f applied to x ------------------------------------------------------------------------
    def apply(self, f, args):
        """list of (atoms, value) for `f(args…)`; a closure with one return value is inlined"""
        if f[0] == "fnptr":
            if f[1] in CTOR_FNS and len(args) == 1:
                return [((), ("agg", CTOR_FNS[f[1]], (args[0],)))]
            segs = f[1].split("::")
            if len(segs) >= 2 and segs[-1][:1].isupper() and segs[-2][:1].isupper() and "<" not in segs[-1]:
                return [((), ("agg", f[1], tuple(args)))]      # tuple-variant constructor used as a function
            return [((), ("call", f[1], tuple(args), f[2] if len(f) > 2 else ()))]
        if f[0] == "closure" and self.depth < 4:
            cb = _closure_body(self.crate, f[1])
            if cb is not None:
                inner = Algebra(self.crate, self.depth + 1)
                out = []
                # what the closure does besides computing its value (calls through a `&mut`): carried
                # as markers on the cases in which the closure runs
                did = []
                cs_ = S.Sym(cb)
                for blk, t in cb.calls():
                    ci = t["func"] if t["func"].get("k") == "const" and "fn" in t["func"] else None
                    if not ci or not t["args"]:
                        continue
                    a0 = t["args"][0]
                    if a0["k"] in ("copy", "move") and cb.local_ty(a0["p"]["local"]).startswith("&mut "):
                        name = ci.get("resolved") or ci["fn"]
                        if name.startswith(("quote::", "proc_macro2::", "<proc_macro2::", "core::fmt::", "<core::fmt::")):
                            continue      # building tokens / formatting is part of the value
                        eargs = tuple(_subst_closure(S.strip_transparent(cs_.operand(a)), f[2], args) for a in t["args"])
                        did.append((("effect", name, eargs), True))
                for conds, v in inner.body_cases(cb):
                    v2 = _subst_closure(v, f[2], args)
                    at = tuple((_subst_closure(e, f[2], args), val) for e, val in conds)
                    out.append((at + tuple(did), v2))
                if out:
                    return out
        if f[0] == "call" and isinstance(f[1], str) and self.depth < 4:
            # a private helper that returns a closure (`fn or_span_of(node) -> impl FnOnce(Error) -> Error`):
            # the closure it builds, with the helper's parameters replaced by the call's arguments
            S.accessor_summary(self.crate, f[1])
            raws = self.crate["_raw_by_key"].get(f[1])
            if raws and len(raws) == 1 and raws[0]["kind"] in ("Fn", "AssocFn") and str(raws[0].get("vis", "")).startswith("Restricted") and len(raws[0]["blocks"]) <= 6:
                hb = Body(raws[0], self.crate)
                hs = S.Sym(hb)
                rets = []
                for d in hb.defs().get(0, []):
                    if not hb.is_cleanup(d[0]) and d[2] in ("assign", "call"):
                        rets.append(S.strip_transparent(hs._def_expr(d, 0)))
                if len(rets) == 1 and rets[0][0] == "closure" and hb.arg_count == len(f[2]):
                    clo = S.subst_params(rets[0], f[2])
                    return self.apply(clo, args)
        return [((), ("call", ("indirect", f), tuple(args)))]

    # expansion of one value -----------------------------------------------------------------
    def expand(self, e):
        e = S.strip_transparent(e)
        if e[0] == "local" and self.body is not None and len(e) == 2:
            # the value of a `match`/`if` bound to a local: one case per definition, under the
            # path condition of that definition
            b = self.body
            ds = [d for d in b.defs().get(e[1], []) if d[2] in ("assign", "call") and not b.is_cleanup(d[0])]
            other = [d for d in b.defs().get(e[1], []) if d[2] not in ("assign", "call") and not b.is_cleanup(d[0])]
            if ds and not other and not (1 <= e[1] <= b.arg_count):
                out = []
                for d in ds:
                    ed = S.strip_transparent(self.sym._def_expr(d, 0))
                    if ed == e:
                        continue
                    for at, v in self.expand(ed):
                        out.append((at + ((("pc-of", d[0]), None),), v))
                if out:
                    return out
        if e[0] == "call" and isinstance(e[1], str):
            c, a = e[1], e[2]
            if c in (R + "map", R + "map_err", R + "and_then", R + "or_else") and len(a) == 2:
                on_ok = c in (R + "map", R + "and_then")
                wraps = c in (R + "map", R + "map_err")
                out = []
                for at, v in self.split(a[0], OK, ERR, IS_OK):
                    hit = _is_agg(v, OK) if on_ok else _is_agg(v, ERR)
                    if not hit:
                        out.append((at, v))
                        continue
                    for at2, w in self.apply(a[1], [v[2][0]]):
                        if wraps:
                            out.append((at + at2, ("agg", OK if on_ok else ERR, (w,))))
                        else:
                            for at3, w2 in self.expand(w):
                                out.append((at + at2 + at3, w2))
                return out
            if c in (O + "ok_or_else", O + "ok_or") and len(a) == 2:
                out = []
                for at, v in self.split(a[0], SOME, NONE, IS_SOME):
                    if _is_agg(v, SOME):
                        out.append((at, ("agg", OK, (v[2][0],))))
                    elif c.endswith("ok_or"):
                        out.append((at, ("agg", ERR, (a[1],))))
                    else:
                        for at2, w in self.apply(a[1], []):
                            out.append((at + at2, ("agg", ERR, (w,))))
                return out
            if c in (R + "map_or_else", R + "map_or", R + "unwrap_or_else", R + "unwrap_or") and len(a) in (2, 3):
                # Ok(x) => f(x) (or x), Err(e) => default(e) / default
                out = []
                has_f = c in (R + "map_or_else", R + "map_or")
                lazy = c.endswith("_else")
                for at, v in self.split(a[0], OK, ERR, IS_OK):
                    if _is_agg(v, OK):
                        if has_f:
                            for at2, w in self.apply(a[2], [v[2][0]]):
                                out.append((at + at2, w))
                        else:
                            out.append((at, v[2][0]))
                    elif lazy:
                        for at2, w in self.apply(a[1], [v[2][0]]):
                            out.append((at + at2, w))
                    else:
                        out.append((at, a[1]))
                return out
            if c in (R + "ok", R + "err") and len(a) == 1:
                out = []
                for at, v in self.split(a[0], OK, ERR, IS_OK):
                    hit = _is_agg(v, OK) if c == R + "ok" else _is_agg(v, ERR)
                    out.append((at, ("agg", SOME, (v[2][0],)) if hit else ("agg", NONE, ())))
                return out
            if c in (O + "or", O + "or_else") and len(a) == 2:
                out = []
                for at, v in self.split(a[0], SOME, NONE, IS_SOME):
                    if _is_agg(v, SOME):
                        out.append((at, v))
                    elif c.endswith("or_else"):
                        for at2, w in self.apply(a[1], []):
                            for at3, w2 in self.expand(w):
                                out.append((at + at2 + at3, w2))
                    else:
                        for at3, w2 in self.expand(a[1]):
                            out.append((at + at3, w2))
                return out
            if c in (O + "map_or_else", O + "map_or", O + "unwrap_or_else", O + "unwrap_or") and len(a) in (2, 3):
                # Some(x) => f(x) (or x), None => the default
                out = []
                has_f = c in (O + "map_or_else", O + "map_or")
                lazy = c.endswith("_else")
                for at, v in self.split(a[0], SOME, NONE, IS_SOME):
                    if _is_agg(v, SOME):
                        if has_f:
                            for at2, w in self.apply(a[2], [v[2][0]]):
                                out.append((at + at2, w))
                        else:
                            out.append((at, v[2][0]))
                    elif lazy:
                        for at2, w in self.apply(a[1], []):
                            out.append((at + at2, w))
                    else:
                        out.append((at, a[1]))
                return out
            if c in ("core::option::Option::<&T>::cloned", "core::option::Option::<&T>::copied") and len(a) == 1:
                out = []
                for at, v in self.split(a[0], SOME, NONE, IS_SOME):
                    if _is_agg(v, SOME):
                        out.append((at, ("agg", SOME, (("call", "core::clone::Clone::clone", (v[2][0],), ()),))))
                    else:
                        out.append((at, v))
                return out
            if c == O + "map" and len(a) == 2:
                out = []
                for at, v in self.split(a[0], SOME, NONE, IS_SOME):
                    if _is_agg(v, SOME):
                        for at2, w in self.apply(a[1], [v[2][0]]):
                            out.append((at + at2, ("agg", SOME, (w,))))
                    else:
                        out.append((at, v))
                return out
            if "FromResidual<" in c and c.endswith("::from_residual") and len(a) == 1:
                # `?` on the failing side: the residual of branch(x)
                x = a[0]
                src = None
                if x[0] == "field" and x[1][0] == "variant" and x[1][2] == "Break" and x[1][1][0] == "call" and str(x[1][1][1]).endswith("Try>::branch"):
                    src = x[1][1][2][0]
                if src is not None:
                    out = []
                    if "core::option::Option<" in x[1][1][1]:
                        return [((), ("agg", NONE, ()))]
                    conv = _residual_conversion(e)
                    for at, v in self.split(src, OK, ERR, IS_OK):
                        if _is_agg(v, ERR):
                            out.append((at, ("agg", ERR, (("call", "From::from", (v[2][0],), ()),)) if conv else v))
                    return out
            if c in ("core::bool::<impl bool>::then", "core::bool::<impl bool>::then_some") and len(a) == 2:
                # `cond.then(|| v)` is `if cond { Some(v) } else { None }`
                out = []
                if c.endswith("then_some"):
                    vals = [((), a[1])]
                else:
                    vals = self.apply(a[1], [])
                for at2, w in vals:
                    out.append((((a[0], True),) + at2, ("agg", SOME, (w,))))
                out.append((((a[0], False),), ("agg", NONE, ())))
                return out
            if c == "darling_core::error::Accumulator::finish_with" and len(a) == 2:
                # `errors.finish_with(v)` is `errors.finish().map(|()| v)` (C05.finish.delegates / finish_with case table)
                fin = ("call", "darling_core::error::Accumulator::finish", (a[0],), ())
                test = ("call", IS_OK, (fin,), ())
                return [(((test, True),), ("agg", OK, (a[1],))), (((test, False),), ("agg", ERR, (payload(fin, "Err"),)))]
            inl = self.inline_private(c, a, e[3] if len(e) > 3 else ())
            if inl is not None:
                return inl
        if e[0] == "agg" and self.body is not None and self.depth < 6:
            # `Ok(match x { .. })`: a payload assembled in a local on several branches
            for k, op in enumerate(e[2]):
                if op[0] == "call" and isinstance(op[1], str) and (op[1].startswith(R) or op[1].startswith(O)) and e[1] in (OK, ERR, SOME) and len(e[2]) == 1:
                    # `Ok(r.map_err(f))`: the payload is itself a Result/Option expression
                    sub_cases = self.expand(op)
                    if len(sub_cases) > 1 and all(w[0] == "agg" for _, w in sub_cases):
                        return [(at, ("agg", e[1], (w,))) for at, w in sub_cases]
                if op[0] == "local" and len(op) == 2:
                    sub_cases = self.expand(op)
                    if len(sub_cases) > 1 or (sub_cases and sub_cases[0][1] != op):
                        out = []
                        for at, v in sub_cases:
                            rebuilt = ("agg", e[1], e[2][:k] + (v,) + e[2][k + 1:])
                            for at2, w in self.expand(rebuilt):
                                out.append((at + at2, w))
                        return out
        return [((), self.rewrite(e))]

    def inline_private(self, name, args, targs=(), any_vis=False):
        """A call to a private, loop-free helper of the same crate reads as the helper's own case
        table over the arguments (extracting a function does not change what a caller returns)."""
        if self.depth >= 3:
            return None
        S.accessor_summary(self.crate, name)
        raws = self.crate["_raw_by_key"].get(name)
        if not raws or len(raws) != 1:
            return None
        raw = raws[0]
        private = str(raw.get("vis", "")).startswith("Restricted")
        # (any_vis: inherent fns and free fns only – a trait method is an interface, not a definition)
        inherent = not raw.get("trait_default_of") and not name.startswith("<") and len(raw["blocks"]) <= 24
        if raw["kind"] not in ("Fn", "AssocFn") or not (private or (any_vis and inherent)) or len(raw["blocks"]) > 40:
            return None
        cb = Body(raw, self.crate)
        if cb.derived or cb.arg_count != len(args):
            return None
        if S.PathCond(cb).back_edges():
            return None
        key = (id(self.crate), name)
        if key in _INLINING:
            return None
        _INLINING.add(key)
        try:
            inner = Algebra(self.crate, self.depth + 1)
            out = []
            gen = raw.get("generics") or []
            tmap = dict(zip(gen, list(targs)[-len(gen):])) if gen and len(targs) >= len(gen) else {}
            for conds, v in inner.body_cases(cb):
                at = tuple((_subst_targs(S.subst_params(e, args), tmap), val) for e, val in conds)
                out.append((at, _subst_targs(S.subst_params(v, args), tmap)))
            return out or None
        except RuntimeError:
            return None
        finally:
            _INLINING.discard(key)

    def split(self, r, yes, no, test):
        """cases of a Result/Option-valued expression, each a visible constructor"""
        out = []
        for at, v in self.expand(r):
            if v[0] == "agg" and v[1] in (yes, no):
                out.append((at, v))
            else:
                yv = "Ok" if yes == OK else "Some"
                out.append((at + ((("call", test, (v,), ()), True),), ("agg", yes, (payload(v, yv),))))
                if no == NONE:
                    out.append((at + ((("call", test, (v,), ()), False),), ("agg", NONE, ())))
                else:
                    out.append((at + ((("call", test, (v,), ()), False),), ("agg", no, (payload(v, "Err"),))))
        return out

    def _fold_payloads(self, e):
        """`(Ok{x} as Ok).0` is x; `(Err{y} as Err).0` is y"""
        if not isinstance(e, tuple) or not e:
            return e
        e = tuple(self._fold_payloads(x) if isinstance(x, tuple) else x for x in e)
        if e[0] == "field" and e[2] == "0" and e[1][0] == "variant" and e[1][1][0] == "agg" and e[1][1][1].endswith("::" + e[1][2]) and e[1][1][2]:
            return e[1][1][2][0]
        return e

    def rewrite(self, e):
        """`(branch(x) as Continue).0` is the Ok/Some payload of x; an error conversion reads
        `From::from(x)` whether it was written out or inserted by `?`"""
        if not isinstance(e, tuple) or not e:
            return e
        if e[0] == "call" and isinstance(e[1], str) and len(e[2]) == 1 and _FROM.search(e[1]):
            return ("call", "From::from", (self.rewrite(e[2][0]),), ())
        if e[0] == "call" and e[1] == "darling_core::error::Error::with_span" and len(e[2]) == 2:
            # `unexpected_lit_type(x)` / `unexpected_expr_type(x)` span themselves with x (checked by
            # C03.G.spanning-constructors): a further `.with_span(x)` is the same value
            inner = S.strip_transparent(e[2][0])
            if inner[0] == "call" and inner[1] in SELF_SPANNING and len(inner[2]) == 1 and S.strip_transparent(inner[2][0]) == S.strip_transparent(e[2][1]):
                return self.rewrite(inner)
        if e[0] == "field" and e[1][0] == "variant" and e[1][2] == "Continue" and e[1][1][0] == "call" and str(e[1][1][1]).endswith("Try>::branch"):
            src = self.rewrite(e[1][1][2][0])
            return payload(src, "Some" if "core::option::Option<" in e[1][1][1] else "Ok")
        return tuple(self.rewrite(x) if isinstance(x, tuple) else x for x in e)

    # whole body --------------------------------------------------------------------------------
    def body_cases(self, body):
        s = S.Sym(body)
        pc = S.PathCond(body, s)
        self.body, self.sym = body, s
        out = []

        def defs_of(l, depth=0):
            for d in body.defs().get(l, []):
                blk, i, kind, node = d
                if body.is_cleanup(blk) or kind not in ("assign", "call"):
                    continue
                e = S.strip_transparent(s._def_expr(d, 0))
                if e[0] == "local" and depth < 4 and e[1] != l:
                    for x in defs_of(e[1], depth + 1):
                        yield x
                    continue
                yield blk, e

        for blk, e in defs_of(0):
            for extra, v in self.expand(e):
                # a value taken from a phi local holds under the conditions of that definition
                blocks = [ee[1] for (ee, val) in extra if ee[0] == "pc-of"]
                extra = [(ee, val) for (ee, val) in extra if ee[0] != "pc-of"]
                v = self.rewrite(v)
                bases = [frozenset()]
                for bb in [blk] + blocks:
                    nxt = []
                    for base in bases:
                        for cs in pc.conditions(bb, keep_phi=True):
                            if any(e2 == e1 and S._contradict(v1, v2) for (e1, v1) in base for (e2, v2) in cs):
                                continue
                            nxt.append(base | cs)
                    bases = nxt
                v_in = v
                for cs0 in bases:
                    # the value of a local assigned on the branch taken (`let parsed = match ..;` and
                    # a later `match parsed`) is substituted into the returned value and the atoms;
                    # if that value is itself a combinator chain it is expanded into its own cases
                    env0 = {e2[1]: x for (e2, x) in cs0 if e2[0] == "phi"}
                    cs_real = frozenset(at for at in cs0 if at[0][0] != "phi")
                    used = [l for l in env0 if S._mentions_local(v_in, {l}) or any(S._mentions_local(ee, {l}) for ee, _ in extra)
                            or any(_has_subterm(at[0], env0[l]) for at in cs_real)]
                    combos = [({}, ())]
                    for l in used[:2]:
                        alts = [(at, val) for at, val in self.expand(env0[l])]
                        nxt = []
                        for envc, atc in combos:
                            for at, val in alts[:8]:
                                e3 = dict(envc)
                                e3[l] = val
                                nxt.append((e3, atc + tuple(x for x in at if x[0][0] != "pc-of")))
                        combos = nxt
                    for env, more in combos:
                        full_env = dict(env0)
                        full_env.update(env)
                        v = v_in
                        if full_env and S._mentions_local(v_in, set(full_env)):
                            v = self.rewrite(self._fold_payloads(S.subst_locals(v_in, full_env)))
                        cur = set()
                        bad = False
                        atoms = []
                        for (e2, v2) in cs_real:
                            e3 = e2
                            for l in env:
                                if env0[l] != env[l] and _has_subterm(e3, env0[l]):
                                    e3 = _replace_subterm(e3, env0[l], env[l])
                            if e3 is not e2:
                                atoms.append((self._fold_payloads(e3), v2, True))
                            else:
                                cur.add((e2, v2))
                        for (ee, val) in tuple(extra) + tuple(more):
                            if full_env and S._mentions_local(ee, set(full_env)):
                                ee = self._fold_payloads(S.subst_locals(ee, full_env))
                            atoms.append((ee, val, False))
                        for (ee, val, _) in atoms:
                            if ee[0] == "effect":
                                cur.add((self.rewrite(ee), val))
                                continue
                            a = S.normalise_atom(self.rewrite(ee), val) if isinstance(val, bool) or ee[0] in ("call", "not", "bin", "discr") else (self.rewrite(ee), val)
                            f = S.fold_atom(a[0], a[1])
                            if f is False:
                                bad = True
                                break
                            if f is True:
                                continue
                            if any(e2 == a[0] and S._contradict(v2, a[1]) for (e2, v2) in cur):
                                bad = True
                                break
                            cur.add(a)
                        if not bad:
                            out.append((frozenset(cur), v))
        out = self._resolve_helper_results(out)
        if S.DEEP and self.depth == 0:
            out = self._inline_value_helpers(out)
        return self._expand_alternatives(out)

    def _value_helper_calls(self, e, acc):
        if not isinstance(e, tuple) or not e:
            return
        if e[0] == "call" and isinstance(e[1], str) and (e[1].startswith("darling_core::") or e[1].startswith("<darling_core::")) and e not in acc:
            raws = self.crate.get("_raw_by_key", {}).get(e[1])
            if raws and len(raws) == 1 and raws[0]["kind"] in ("Fn", "AssocFn") and str(raws[0].get("vis", "")).startswith("Restricted") and len(raws[0]["blocks"]) <= 16:
                acc.append(e)
        for x in e:
            if isinstance(x, tuple):
                self._value_helper_calls(x, acc)

    def _inline_value_helpers(self, rows, fuel=2):
        """deep mode: a value computed by a small private helper (`Core::default_rename_rule(&data)`)
        is replaced by the helper's own cases"""
        if fuel == 0:
            return rows
        out, changed = [], False
        for conds, v in rows:
            acc = []
            self._value_helper_calls(v, acc)
            done = False
            for c in acc:
                inl = self.inline_private(c[1], c[2], c[3] if len(c) > 3 else ())
                if not inl or len(inl) > 4:
                    continue
                for at, hv in inl:
                    cur, bad = set(conds), False
                    for (ee, val) in at:
                        if ee[0] in ("pc-of", "effect"):
                            continue
                        a_ = S.normalise_atom(self.rewrite(ee), val) if isinstance(val, bool) or ee[0] in ("call", "not", "bin", "discr") else (ee, val)
                        f_ = S.fold_atom(a_[0], a_[1])
                        if f_ is False:
                            bad = True
                            break
                        if f_ is True:
                            continue
                        if any(x == a_[0] and S._contradict(y, a_[1]) for (x, y) in cur):
                            bad = True
                            break
                        cur.add(a_)
                    if not bad:
                        out.append((frozenset(cur), _replace_subterm(v, c, hv)))
                done = changed = True
                break
            if not done:
                out.append((conds, v))
        return self._inline_value_helpers(out, fuel - 1) if changed else out

    def _expand_alternatives(self, rows, fuel=3):
        """atoms that can be read through a definition (`is_enum(empty_from(x))`, `helper(x).is_some()`,
        `a.zip(b).is_some()`) are replaced by what they mean, splitting the row where that is a disjunction"""
        if fuel == 0 or self.depth > 0:
            return rows
        out, changed = [], False
        for conds, v in rows:
            target = None
            for at in conds:
                if at[0][0] in ("effect", "pc-of"):
                    continue
                alts = S.predicate_alternatives(self.crate, at)
                if alts:
                    target = (at, alts)
                    break
            if target is None:
                out.append((conds, v))
                continue
            changed = True
            at, alts = target
            rest = frozenset(c for c in conds if c != at)
            for alt in alts[:8]:
                cur, bad = set(rest), False
                for (x, y) in alt:
                    a_ = S.normalise_atom(x, y) if isinstance(y, bool) else (x, y)
                    f_ = S.fold_atom(a_[0], a_[1])
                    if f_ is False:
                        bad = True
                        break
                    if f_ is True:
                        continue
                    if any(x2 == a_[0] and S._contradict(y2, a_[1]) for (x2, y2) in cur):
                        bad = True
                        break
                    cur.add(a_)
                if not bad:
                    out.append((frozenset(cur), v))
        return self._expand_alternatives(out, fuel - 1) if changed else out

    def _helper_calls(self, e, acc):
        """private-helper calls whose result is looked into: `(h(..) as Ok).0`, `is_ok(h(..))`"""
        if not isinstance(e, tuple) or not e:
            return
        inner = None
        if e[0] == "field" and isinstance(e[1], tuple) and e[1] and e[1][0] == "variant" and e[1][2] in ("Ok", "Err", "Some"):
            inner = e[1][1]
        elif e[0] == "call" and e[1] in (IS_OK, IS_SOME) and len(e[2]) == 1:
            inner = e[2][0]
        if inner is not None and inner[0] == "call" and isinstance(inner[1], str) and inner not in acc:
            raws = self.crate.get("_raw_by_key", {}).get(inner[1])
            if raws and len(raws) == 1 and raws[0]["kind"] in ("Fn", "AssocFn") and (S.DEEP or str(raws[0].get("vis", "")).startswith("Restricted")):
                acc.append(inner)
        for x in e:
            if isinstance(x, tuple):
                self._helper_calls(x, acc)

    def _resolve_helper_results(self, rows, fuel=3):
        """`let v = helper(x)?; ..v..`: the rest of the function speaks about `(helper(x) as Ok).0`;
        with the helper's own case table that is the payload of each of its Ok cases, under the
        case's conditions (and the row is dropped where the helper's case contradicts it)."""
        if fuel == 0 or self.depth >= 3:
            return rows
        out = []
        changed = False
        for conds, v in rows:
            acc = []
            self._helper_calls(v, acc)
            for ee, _ in conds:
                self._helper_calls(ee, acc)
            inl = None
            for c in acc:
                inl = self.inline_private(c[1], c[2], c[3] if len(c) > 3 else (), any_vis=S.DEEP)
                if inl and all(hv[0] == "agg" and hv[1] in (OK, ERR, SOME, NONE) for _, hv in inl):
                    break
                inl = None
            if not inl:
                out.append((conds, v))
                continue
            changed = True
            for at, hv in inl:
                v2 = self.rewrite(self._fold_payloads(_replace_subterm(v, c, hv)))
                cur, bad = set(), False
                for (ee, val) in list(conds) + [x for x in at if x[0][0] != "pc-of"]:
                    if ee[0] == "effect":
                        cur.add((ee, val))
                        continue
                    e2 = self._fold_payloads(_replace_subterm(ee, c, hv)) if _has_subterm(ee, c) else ee
                    if e2[0] == "call" and e2[1] in (IS_OK, IS_SOME) and len(e2[2]) == 1 and e2[2][0][0] == "agg":
                        holds = e2[2][0][1] in (OK, SOME)
                        if holds != val:
                            bad = True
                            break
                        continue
                    if _has_subterm(e2, ("variant", hv, "Ok")) or _has_subterm(e2, ("variant", hv, "Err")) or _has_subterm(e2, ("variant", hv, "Some")):
                        bad = True      # speaks about the payload of the other variant
                        break
                    a_ = S.normalise_atom(self.rewrite(e2), val) if e2 is not ee else (ee, val)
                    f_ = S.fold_atom(a_[0], a_[1])
                    if f_ is False:
                        bad = True
                        break
                    if f_ is True:
                        continue
                    if any(x == a_[0] and S._contradict(y, a_[1]) for (x, y) in cur):
                        bad = True
                        break
                    cur.add(a_)
                if not bad and not (_has_subterm(v2, ("variant", hv, "Ok")) or _has_subterm(v2, ("variant", hv, "Err")) or _has_subterm(v2, ("variant", hv, "Some"))):
                    out.append((frozenset(cur), v2))
        return self._resolve_helper_results(out, fuel - 1) if changed else out


def site_cases(ctx, body, blk, node):
    """An operand as evaluated at block `blk`: one row (path atoms, value) per disjunct of the path
    condition, with locals that were assigned on the branch taken (`let msg = if .. {Some(a)} else
    {None}` and a later `if let Some(m) = msg`) replaced by the value of that branch.  One call fed
    by a value chosen earlier and one call per branch read the same."""
    alg = Algebra(body.crate)
    s, pc = ctx.sym(body)
    alg.body, alg.sym = body, s
    e = S.strip_transparent(s.operand(node) if node.get("k") in ("copy", "move", "const") else s.place(node))
    out = []
    for cs0 in pc.conditions(blk, keep_phi=True):
        env = {e2[1]: x for (e2, x) in cs0 if e2[0] == "phi"}
        v = e
        if env and S._mentions_local(e, set(env)):
            v = alg._fold_payloads(S.subst_locals(e, env))
        v = S.strip_transparent(alg.rewrite(v))
        row = (frozenset(S.atom_str(e2, v2, s) for (e2, v2) in cs0 if e2[0] != "phi"), S.show(v, s))
        if row not in out:
            out.append(row)
    return out


def expr_cases(ctx, body, node):
    """case table of one operand / rvalue of `body` (conditions are those introduced by the
    expression itself, not the path condition of where it stands)"""
    alg = Algebra(body.crate)
    s, pc = ctx.sym(body)
    alg.body, alg.sym = body, s
    if "k" in node and node["k"] in ("copy", "move", "const"):
        e = s.operand(node)
    elif "local" in node:
        e = s.place(node)
    else:
        e = s.rvalue(node)
    out = []
    for extra, v in alg.expand(S.strip_transparent(e)):
        # value taken from a local assigned on several branches: one row per disjunct of the branch's
        # own path condition
        bases = [[]]
        for ee, val in extra:
            if ee[0] == "pc-of":
                ds = list(pc.conditions(ee[1])) or [frozenset()]
                bases = [b0 + list(d) for b0 in bases for d in ds][:32]
        for base in bases:
            conds = list(base)
            bad = False
            for ee, val in extra:
                if ee[0] in ("effect", "pc-of"):
                    continue
                a = S.normalise_atom(alg.rewrite(ee), val)
                f = S.fold_atom(a[0], a[1])
                if f is False:
                    bad = True
                    break
                if f is None:
                    if any(e2 == a[0] and S._contradict(v2, a[1]) for (e2, v2) in conds):
                        bad = True
                        break
                    conds.append(a)
            if not bad:
                row = (sorted(set(S.atom_str(e2, v2, s) for e2, v2 in conds)), S.show(S.strip_transparent(alg.rewrite(v)), s))
                if row not in out:
                    out.append(row)
    return out


def _atom(e, val, s):
    if e[0] == "effect":
        return "did:%s(%s)" % (e[1], ", ".join(S.show(S.strip_transparent(x), s) for x in e[2]))
    return S.atom_str(e, val, s)


def raw_cases(ctx, body):
    """case table with expressions as tuples (for rules that need type arguments of calls)"""
    return Algebra(body.crate).body_cases(body)


def find_call(e, name):
    """first call node of `name` inside expression e"""
    if not isinstance(e, tuple) or not e:
        return None
    if e[0] == "call" and e[1] == name:
        return e
    for x in e:
        if isinstance(x, tuple):
            r = find_call(x, name)
            if r is not None:
                return r
    return None


def cases(ctx, body, deep=False):
    """[(sorted atom strings, rendered value)] of a function body; deep=True also reads public
    inherent fns of the crate by their definition where their result is looked into"""
    alg = Algebra(body.crate)
    s, _ = ctx.sym(body)
    out = []
    S.DEEP = bool(deep)
    try:
        rows = alg.body_cases(body)
    finally:
        S.DEEP = False
    for conds, v in rows:
        row = (sorted(_atom(e, val, s) for e, val in conds), S.show(S.strip_transparent(v), s))
        if row not in out:
            out.append(row)
    return out


def effects(ctx, body, callee_rx):
    """Calls matching `callee_rx` that `body` makes, with the condition under which each runs:
    [(sorted condition atoms, [rendered args])].  A call in a branch of `body` and a call inside a
    closure handed to map_err/and_then/... on that branch give the same entry."""
    import re as _re
    rx = _re.compile(callee_rx)
    out = []
    for blk, t in ctx.find_calls(body, callee_rx):
        for d in ctx.pc_strs(body, blk) or [set()]:
            row = (sorted(d), [ctx.expr(body, a) for a in t["args"]])
            if row not in out:
                out.append(row)
    for conds, v in cases(ctx, body):
        for a in conds:
            m = _re.match(r"^did:([^(]*)\((.*)\)$", a)
            if m and rx.search(m.group(1)):
                row = (sorted(x for x in conds if not x.startswith("did:")), _split_args(m.group(2)))
                if row not in out:
                    out.append(row)
    return out


def _split_args(s):
    out, depth, cur = [], 0, ""
    for ch in s:
        if ch in "([{<":
            depth += 1
        elif ch in ")]}>":
            depth -= 1
        if ch == "," and depth == 0:
            out.append(cur.strip())
            cur = ""
        else:
            cur += ch
    if cur.strip():
        out.append(cur.strip())
    return out

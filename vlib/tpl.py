"""Template IR recovered from the generator's MIR.

`quote!`/`quote_spanned!` expand to straight-line sequences of
`quote::__private::push_*(&mut stream, …)` calls, `ToTokens::to_tokens(&value, &mut stream)` for
interpolations, `push_group(&mut stream, Delimiter, inner_stream)` for delimited groups and
iterator loops for `#(…)*` repetitions.  All of it is visible, with resolved callee and the
interpolated value's type, in darling_core's MIR; the path condition of the block gives the
generator condition under which a token is emitted.
"""
import re

from . import mir
from .sym import Sym

PUNCT = {
    "add": "+", "add_eq": "+=", "and": "&", "and_and": "&&", "and_eq": "&=", "at": "@", "bang": "!", "caret": "^",
    "caret_eq": "^=", "colon": ":", "colon2": "::", "comma": ",", "div": "/", "div_eq": "/=", "dot": ".", "dot2": "..",
    "dot3": "...", "dot_dot_eq": "..=", "eq": "=", "eq_eq": "==", "ge": ">=", "gt": ">", "le": "<=", "lt": "<",
    "mul_eq": "*=", "ne": "!=", "or": "|", "or_eq": "|=", "or_or": "||", "pound": "#", "question": "?", "rarrow": "->",
    "larrow": "<-", "rem": "%", "rem_eq": "%=", "fat_arrow": "=>", "semi": ";", "shl": "<<", "shl_eq": "<<=", "shr": ">>",
    "shr_eq": ">>=", "star": "*", "sub": "-", "sub_eq": "-=", "underscore": "_", "lifetime": "'",
}
OPEN = {"Brace": "{", "Parenthesis": "(", "Bracket": "[", "None": "«"}
CLOSE = {"Brace": "}", "Parenthesis": ")", "Bracket": "]", "None": "»"}


def ref_root(body, operand):
    """Base local a reference-typed operand points to (through &mut / & / reborrow / move chains)."""
    if operand["k"] not in ("copy", "move"):
        return None
    p = operand["p"]
    cur = p["local"]
    if any(e["k"] != "deref" for e in p["proj"]):
        return None
    defs = body.defs()
    for _ in range(12):
        ds = [d for d in defs.get(cur, []) if d[2] == "assign"]
        if len(ds) != 1 or len(defs.get(cur, [])) != 1:
            return cur
        r = ds[0][3]["r"]
        if r["k"] in ("ref", "rawptr"):
            if any(e["k"] != "deref" for e in r["p"]["proj"]):
                return cur
            cur = r["p"]["local"]
        elif r["k"] == "use" and r["op"]["k"] in ("copy", "move") and not any(e["k"] != "deref" for e in r["op"]["p"]["proj"]):
            nxt = r["op"]["p"]["local"]
            # a moved stream (`_2 = move _3`) is a different owner: stop at by-value moves of non-reference type
            if not body.local_ty(cur).startswith("&"):
                return cur
            cur = nxt
        else:
            return cur
    return cur


def value_root(body, operand):
    """Follow by-value move chains of a local (`_2 = move _3`) back to the first owner."""
    if operand["k"] not in ("copy", "move") or operand["p"]["proj"]:
        return None
    cur = operand["p"]["local"]
    defs = body.defs()
    for _ in range(12):
        ds = defs.get(cur, [])
        if len(ds) == 1 and ds[0][2] == "assign" and ds[0][3]["r"]["k"] == "use":
            op = ds[0][3]["r"]["op"]
            if op["k"] in ("copy", "move") and not op["p"]["proj"]:
                cur = op["p"]["local"]
                continue
        return cur
    return cur


class Tok:
    __slots__ = ("blk", "kind", "text", "stream", "inner", "ty", "expr", "rep", "src")

    def __init__(self, blk, kind, text, stream, inner=None, ty=None, expr=None):
        self.blk, self.kind, self.text, self.stream, self.inner, self.ty, self.expr = blk, kind, text, stream, inner, ty, expr
        self.rep = False
        self.src = None

    def __repr__(self):
        return "%s:%s" % (self.kind, self.text)


def block_order(body):
    """Reverse postorder of the normal CFG (deterministic linearisation)."""
    seen = set()
    order = []
    stack = [(0, iter(body.succs(0)))]
    seen.add(0)
    while stack:
        n, it = stack[-1]
        adv = False
        for m in it:
            if m not in seen:
                seen.add(m)
                stack.append((m, iter(body.succs(m))))
                adv = True
                break
        if not adv:
            order.append(n)
            stack.pop()
    order.reverse()
    return order


class _TypeTemplate:
    """what a value of a type prints as when it is handed to `ToTokens::to_token_stream` as a fn item"""

    def __init__(self, ty):
        self.ty = ty
        self.events = [None]
        self.by_stream = {}
        self.b = None

    def root_streams(self):
        return [0]

    def render(self, stream, depth=0, seen=None, follow="fns", argmap=None):
        return ["⟨%s⟩" % tag(self.ty)]

    def stream_alts(self, local):
        return []


class Templates:
    """Token events of one generator function."""

    def __init__(self, body):
        self.b = body
        self.sym = Sym(body)
        self.events = []  # Tok in linearised order
        self.by_stream = {}
        self._scan()

    def _const_str(self, operand):
        e = self.sym.operand(operand)
        if e[0] == "const":
            t = e[1]
            t = t[6:] if t.startswith("const ") else t
            if t.startswith('"') and t.endswith('"'):
                return _unescape(t[1:-1])
            return t
        return None

    def _scan(self):
        b = self.b
        back_targets = set()
        for blk in b.normal_blocks():
            for lab, tb in b.succ_edges(blk):
                if b.dominates(tb, blk):
                    back_targets.add(tb)
        loops = _loop_blocks(b, back_targets)
        for blk in block_order(b):
            if b.is_cleanup(blk):
                continue
            t = b.term(blk)
            if t["k"] != "call":
                continue
            ci = mir.callee_info(t)
            if not ci:
                continue
            name = ci.get("resolved") or ci["fn"]
            gname = ci["fn"]
            tok = None
            if gname.startswith("quote::__private::push_"):
                what = gname[len("quote::__private::push_"):]
                spanned = what.endswith("_spanned")
                if spanned:
                    what = what[: -len("_spanned")]
                stream = ref_root(b, t["args"][0])
                rest = t["args"][2:] if spanned else t["args"][1:]
                if what == "ident":
                    tok = Tok(blk, "ident", self._const_str(rest[0]), stream)
                elif what == "lifetime":
                    tok = Tok(blk, "lifetime", self._const_str(rest[0]), stream)
                elif what == "group":
                    delim = self.sym.show(self.sym.operand(rest[0])).rsplit("::", 1)[-1].rstrip("{}")
                    inner = value_root(b, rest[1])
                    tok = Tok(blk, "group", delim, stream, inner=inner)
                elif what in PUNCT:
                    tok = Tok(blk, "punct", PUNCT[what], stream)
                else:
                    tok = Tok(blk, "punct", "<" + what + ">", stream)
            elif gname == "quote::__private::parse" or gname == "quote::__private::parse_spanned":
                stream = ref_root(b, t["args"][0])
                tok = Tok(blk, "lit", self._const_str(t["args"][-1]), stream)
            elif ci.get("trait") == "quote::to_tokens::ToTokens" and ci.get("method") == "to_tokens":
                stream = ref_root(b, t["args"][1])
                tok = Tok(blk, "interp", tag(ci.get("self_ty")), stream, ty=tag(ci.get("self_ty")), expr=self.sym.show(self.sym.operand(t["args"][0])))
                tok.src = ref_root(b, t["args"][0])
            elif gname.endswith("TokenStreamExt::append_all") or gname.endswith("core::iter::traits::collect::Extend<proc_macro2::TokenStream>>::extend"):
                stream = ref_root(b, t["args"][0])
                src = value_root(b, t["args"][1])
                tok = Tok(blk, "append", None, stream, inner=src, expr=self.sym.show(self.sym.operand(t["args"][1])))
            if tok is not None:
                tok.rep = blk in loops
                self.events.append(tok)
                self.by_stream.setdefault(tok.stream, []).append(tok)
        # a stream that starts from the result of a call (not TokenStream::new()) carries that content first
        for stream in list(self.by_stream):
            if stream is None or stream <= b.arg_count:
                continue
            ds = [d for d in b.defs().get(stream, []) if d[2] == "call" and not b.is_cleanup(d[0])]
            if len(ds) == 1:
                ci = mir.callee_info(ds[0][3])
                name = (ci.get("resolved") or ci["fn"]) if ci else ""
                if name and name != "proc_macro2::TokenStream::new" and not name.endswith("Default>::default"):
                    tk = Tok(ds[0][0], "interp", "proc_macro2::TokenStream", stream, ty="proc_macro2::TokenStream", expr=self.sym.show(self.sym._def_expr(ds[0], 0)))
                    self.by_stream[stream].insert(0, tk)
                    self.events.append(tk)

    # ------------------------------------------------------------------ rendering
    def callee_templates(self, tk, types=True):
        """Templates of the hand-written function of this crate whose result is interpolated by
        `tk` (`let x = self.helper(..); quote!(.. #x ..)`), or None."""
        r = self.callee_templates_all(tk, types)
        return r[0] if r and len(r) == 1 else None

    def callee_templates_all(self, tk, types=True):
        """list of alternative Templates (one per branch / per closure of `map_or_else`), or None"""
        r = self._callee_templates(tk, types)
        if r is None:
            return None
        return r if isinstance(r, list) else [r]

    def _callee_templates(self, tk, types=True):
        if tk.kind != "interp":
            return None
        b = self.b
        idx = b.crate.get("_tpl_cache")
        if idx is None:
            idx = b.crate["_tpl_cache"] = {}
        # a value of a crate type with its own ToTokens impl (possibly inside Option / #(..)*)
        ty = tk.ty or ""
        for _ in range(3):
            m = re.match(r"^(?:core::option::Option|quote::__private::RepInterp)<(.*)>$", ty)
            if not m:
                break
            ty = m.group(1)
        if ty.startswith("darling_core::"):
            if not types:
                return None
            name = "<%s as quote::to_tokens::ToTokens>::to_tokens" % ty
            if name not in idx:
                idx[name] = None
                raws = [r for r in b.crate["bodies"] if r["key"] == name]
                if len(raws) == 1:
                    t = Templates(mir.Body(raws[0], b.crate))
                    if t.events:
                        idx[name] = t
            return idx[name]
        if tk.src is None:
            return None
        cur = tk.src
        for _ in range(6):
            ds = [d for d in b.defs().get(cur, []) if not b.is_cleanup(d[0])]
            if len(ds) == 1 and ds[0][2] == "assign" and ds[0][3]["r"]["k"] in ("use", "ref"):
                r = ds[0][3]["r"]
                p = r["op"]["p"] if r["k"] == "use" and r["op"]["k"] in ("copy", "move") else (r["p"] if r["k"] == "ref" else None)
                if p is None or any(e["k"] != "deref" for e in p["proj"]):
                    return None
                cur = p["local"]
                continue
            break
        # one definition, or one per branch (`let piece = if c { helper(..) } else { TokenStream::new() }`)
        found = []
        for d in ds:
            if d[2] == "assign" and d[3]["r"]["k"] == "use" and self.stream_alts(cur):
                continue        # this branch takes a template of the fn itself (see stream_alts)
            if d[2] != "call":
                return None
            name = mir.callee_of(d[3])
            if name in ("proc_macro2::TokenStream::new",) or (name or "").endswith("Default>::default"):
                continue
            # `cond.then(|| quote!(..))`, `opt.map(|x| quote!(..))`: the tokens come from the closure;
            # `opt.map_or_else(|| quote!(..), |x| quote!(..))`: from either closure
            names = []
            typed = []
            for a in d[3]["args"]:
                if a["k"] == "const" and "fn" in a and re.search(r"ToTokens(>)?::(to_token_stream|into_token_stream)$", a.get("resolved") or a["fn"]):
                    # `opt.map_or_else(|| quote!(..), ToTokens::to_token_stream)`: the value prints itself
                    tys = a.get("targs") or []
                    typed.append(_TypeTemplate(tys[0] if tys else "?"))
                if a["k"] in ("copy", "move") and not a["p"]["proj"]:
                    for d2 in b.defs().get(a["p"]["local"], []):
                        if d2[2] == "assign" and d2[3]["r"]["k"] == "aggregate" and d2[3]["r"]["agg"] == "closure":
                            names.append(d2[3]["r"]["closure"])
            if typed and names:
                for nm in names:
                    if nm not in idx:
                        idx[nm] = None
                        raws = [r for r in b.crate["bodies"] if r["key"] == nm]
                        if len(raws) == 1:
                            t_ = Templates(mir.Body(raws[0], b.crate))
                            if t_.events:
                                idx[nm] = t_
                    if idx[nm] is None:
                        return None
                    found.append(idx[nm])
                found.extend(typed)
                continue
            if len(names) > 1:
                for nm in names:
                    if nm not in idx:
                        idx[nm] = None
                        raws = [r for r in b.crate["bodies"] if r["key"] == nm]
                        if len(raws) == 1:
                            t_ = Templates(mir.Body(raws[0], b.crate))
                            if t_.events:
                                idx[nm] = t_
                    if idx[nm] is None:
                        return None
                    found.append(idx[nm])
                continue
            if names:
                name = names[0]
            if not name:
                return None
            direct = name == mir.callee_of(d[3])
            if name not in idx:
                idx[name] = None
                raws = [r for r in b.crate["bodies"] if r["key"] == name]
                if len(raws) == 1 and raws[0]["kind"] in ("Fn", "AssocFn", "Closure"):
                    cb = mir.Body(raws[0], b.crate)
                    if not cb.derived:
                        t = Templates(cb)
                        if t.events:
                            idx[name] = t
                        else:
                            # a closure / helper fn without template of its own that only hands on:
                            # `opt.map(|x| helper(x, ..))`, `opt.map_or_else(TokenStream::new, |d| d.decl().into_token_stream())`
                            fw = self._forwarded(cb, types, 0)
                            if fw is not None:
                                idx[name] = fw[0]
                                if fw[1] is not None and fw[1][0] == "captures":
                                    idx[("captures", name)] = fw[1][1]
                                elif fw[1] is not None:
                                    idx[("call", name)] = fw[1]
            if idx[name] is None:
                return None
            found.append(idx[name])
            if direct and ("captures", name) in idx:
                self._calls = getattr(self, "_calls", {})
                self._calls[id(tk)] = (self, d[3], idx[("captures", name)])
            elif direct:
                self._calls = getattr(self, "_calls", {})
                self._calls[id(tk)] = (self, d[3])
            elif ("call", name) in idx:
                self._calls = getattr(self, "_calls", {})
                self._calls[id(tk)] = idx[("call", name)]
        if found:
            return found
        return None

    def _forwarded(self, cb, types, depth):
        """(Templates, (owner Templates, call) | None) of the one place a template-less body takes
        its tokens from: a crate fn with templates it calls, a closure it builds, or (types=True)
        the ToTokens impl of a crate type it renders"""
        b = self.b
        cands = []
        for _, t2 in cb.calls():
            ci2 = mir.callee_info(t2) or {}
            n2 = ci2.get("resolved") or ci2.get("fn") or ""
            if n2.startswith("darling_core::") or n2.startswith("<darling_core::"):
                r2 = [r for r in b.crate["bodies"] if r["key"] == n2]
                if len(r2) == 1 and r2[0]["kind"] in ("Fn", "AssocFn"):
                    cb2 = mir.Body(r2[0], b.crate)
                    if not cb2.derived:
                        t3 = Templates(cb2)
                        if t3.events:
                            cands.append((t3, (Templates(cb), t2)))
            if types and re.search(r"ToTokens(>)?::(into_token_stream|to_token_stream|to_tokens)$", n2):
                ty2 = tag(ci2.get("self_ty") or (ci2.get("targs") or [""])[0])
                if ty2.startswith("darling_core::"):
                    r3 = [r for r in b.crate["bodies"] if r["key"] == "<%s as quote::to_tokens::ToTokens>::to_tokens" % ty2]
                    if len(r3) == 1:
                        t4 = Templates(mir.Body(r3[0], b.crate))
                        if t4.events:
                            cands.append((t4, None))
        for _, _, st in cb.stmts():
            if st["k"] == "assign" and st["r"]["k"] == "aggregate" and st["r"].get("agg") == "closure":
                r5 = [r for r in b.crate["bodies"] if r["key"] == st["r"]["closure"]]
                if len(r5) == 1:
                    cb5 = mir.Body(r5[0], b.crate)
                    t5 = Templates(cb5)
                    if t5.events:
                        # which of the closure's locals stand for which parameter of `cb` (captures)
                        capmap = {}
                        for _b5, _i5, st5 in cb5.stmts():
                            if st5["k"] != "assign" or st5["p"]["proj"]:
                                continue
                            r_ = st5["r"]
                            pl = r_["op"]["p"] if r_["k"] == "use" and r_["op"]["k"] in ("copy", "move") else (r_["p"] if r_["k"] in ("ref", "rawptr") else None)
                            if pl and pl["local"] == 1:
                                flds = [e_ for e_ in pl["proj"] if e_["k"] == "field"]
                                if len(flds) == 1 and flds[0]["i"] < len(st["r"]["ops"]):
                                    op_ = st["r"]["ops"][flds[0]["i"]]
                                    root_ = ref_root(cb, op_) if op_["k"] in ("copy", "move") else None
                                    if root_ is not None and 1 <= root_ <= cb.arg_count:
                                        capmap[st5["p"]["local"]] = root_
                        cands.append((t5, ("captures", capmap)))
                    elif depth < 2:
                        fw = self._forwarded(cb5, types, depth + 1)
                        if fw is not None:
                            cands.append(fw)
        return cands[0] if len(cands) == 1 else None

    def _argmap(self, tk, depth, follow):
        """param local of the followed helper -> tokens the caller passes for it (when the caller
        builds that argument as a template of its own)"""
        rec = getattr(self, "_calls", {}).get(id(tk))
        if not rec:
            return None
        if len(rec) == 3:
            # the template sits in a closure built by the helper: its captured locals stand for the
            # helper's parameters, i.e. for the caller's arguments
            owner, call, capmap = rec
            base = self._argmap_from(owner, call, depth, follow)
            return {loc: base[p] for loc, p in capmap.items() if p in base} or None
        owner, call = rec
        return self._argmap_from(owner, call, depth, follow)

    def _argmap_from(self, owner, call, depth, follow):
        out = {}
        for i, a in enumerate(call["args"]):
            if a["k"] not in ("copy", "move"):
                e = owner.sym.show(owner.sym.operand(a))
                if len(e) >= 2 and e.startswith('"') and e.endswith('"'):
                    out[i + 1] = [e]
                continue
            root = ref_root(owner.b, a)
            alts = owner.stream_alts(root) if root is not None else []
            if len(alts) == 1 and alts[0] > owner.b.arg_count:
                out[i + 1] = owner.render(alts[0], depth + 1, None, follow)
            else:
                # a constant `&str` argument interpolates as that string literal
                e = owner.sym.show(owner.sym.operand(a))
                if len(e) >= 2 and e.startswith('"') and e.endswith('"'):
                    out[i + 1] = [e]
        return out or None

    def instances(self, stream, follow="fns"):
        """The texts a template stands for when one of its interpolated pieces is chosen by the
        generator's control flow (`let body = match style { Unit => quote!(..), .. }; quote!(#name =>
        { #body })`): [(token list, blocks)] – one entry per choice, with the blocks where that choice
        is made (where the piece is built / assigned / returned by a helper call)."""
        for tk in self.stream_tokens(stream):
            if tk.kind != "interp" or tk.src is None:
                continue
            options = []
            for s2, sites in self.stream_alts_sites(tk.src):
                if self.by_stream.get(s2):
                    options.append((self.render(s2, 1, None, follow), sites + (self.by_stream[s2][0].blk,)))
            # pieces returned by helper fns of the crate, one call per branch
            cur = tk.src
            for _ in range(4):
                ds = [d for d in self.b.defs().get(cur, []) if not self.b.is_cleanup(d[0])]
                if len(ds) == 1 and ds[0][2] == "assign" and ds[0][3]["r"]["k"] == "use" and ds[0][3]["r"]["op"]["k"] in ("copy", "move") and not ds[0][3]["r"]["op"]["p"]["proj"]:
                    cur = ds[0][3]["r"]["op"]["p"]["local"]
                    continue
                break
            for d in [d for d in self.b.defs().get(cur, []) if not self.b.is_cleanup(d[0]) and d[2] == "call"]:
                name = mir.callee_of(d[3])
                raws = [r for r in self.b.crate["bodies"] if r["key"] == name] if name and "darling_core::" in name[:16] else []
                if len(raws) == 1 and raws[0]["kind"] in ("Fn", "AssocFn"):
                    ct = Templates(mir.Body(raws[0], self.b.crate))
                    for r in ct.root_streams():
                        options.append((ct.render(r, 2, None, follow), (d[0],)))
            if len(options) > 1:
                out = []
                for toks, sites in options:
                    self._override = {id(tk): toks}
                    try:
                        out.append((self.render(stream, 0, None, follow), sites))
                    finally:
                        self._override = None
                return out
        return [(self.render(stream, 0, None, follow), ())]

    def render(self, stream, depth=0, seen=None, follow="fns", argmap=None):
        """Flat list of token strings of `stream`, groups expanded; interpolations as ⟨type⟩.
        follow=True also expands interpolated token streams returned by helper functions of the
        crate (what ends up in the output does not depend on how the generator is cut into fns)."""
        seen = seen or set()
        if stream in seen or depth > 12:
            return ["…"]
        seen = seen | {stream}
        out = []
        for tk in self.by_stream.get(stream, []):
            if tk.kind in ("ident", "punct", "lifetime"):
                out.append(tk.text if tk.text is not None else "?")
            elif tk.kind == "lit":
                out.append(tk.text if tk.text is not None else "?")
            elif tk.kind == "group":
                out.append(OPEN.get(tk.text, "("))
                out.extend(self.render(tk.inner, depth + 1, seen, follow, argmap))
                out.append(CLOSE.get(tk.text, ")"))
            elif tk.kind == "interp":
                alts = self.stream_alts(tk.src)
                mixed = None
                if alts and follow and depth < 11 and tk.ty and "TokenStream" in tk.ty:
                    # one branch builds the piece here, another takes it from a helper
                    mixed = self.callee_templates_all(tk, types=False)
                if getattr(self, "_override", None) and id(tk) in self._override:
                    out.extend(self._override[id(tk)])
                elif argmap and tk.src in argmap:
                    out.extend(argmap[tk.src])
                elif alts and mixed and all(c is not self for c in mixed):
                    out.append("⟨alt")
                    for a in alts:
                        out.extend(self.render(a, depth + 1, seen, follow, argmap))
                        out.append("¦")
                    for c in mixed:
                        for r in c.root_streams():
                            out.extend(c.render(r, depth + 2, None, follow))
                            out.append("¦")
                    out[-1] = "⟩"
                elif alts and tk.ty and "TokenStream" in tk.ty:
                    if len(alts) == 1:
                        out.extend(self.render(alts[0], depth + 1, seen, follow, argmap))
                    else:
                        out.append("⟨alt")
                        for a in alts:
                            out.extend(self.render(a, depth + 1, seen, follow, argmap))
                            out.append("¦")
                        out[-1] = "⟩"
                else:
                    # follow="fns": helper fns / closures of the crate only; follow=True: also the
                    # ToTokens impls of crate types (everything that ends up in the output)
                    cts = self.callee_templates_all(tk, types=(follow is True)) if follow and depth < 11 and tk.ty else None
                    if cts and all(c is not self for c in cts):
                        roots = [(c, r) for c in cts for r in c.root_streams()]
                        am = self._argmap(tk, depth, follow) if len(cts) == 1 else None
                        if len(roots) == 1:
                            out.extend(roots[0][0].render(roots[0][1], depth + 2, None, follow, am))
                        else:
                            out.append("⟨alt")
                            for c, a in roots:
                                out.extend(c.render(a, depth + 2, None, follow, am))
                                out.append("¦")
                            if roots:
                                out[-1] = "⟩"
                            else:
                                out.append("⟩")
                    else:
                        out.append("⟨%s⟩" % (tag(tk.ty),))
            elif tk.kind == "append":
                alts = self.stream_alts(tk.inner)
                if len(alts) == 1:
                    out.extend(self.render(alts[0], depth + 1, seen, follow))
                elif alts:
                    out.append("⟨alt")
                    for a in alts:
                        out.extend(self.render(a, depth + 1, seen, follow))
                        out.append("¦")
                    out[-1] = "⟩"
                else:
                    out.append("⟨append %s⟩" % tk.expr)
        return out

    def render_tok(self, tk, follow="fns"):
        """the tokens one interpolation stands for"""
        saved = self.by_stream.get(-1)
        self.by_stream[-1] = [tk]
        try:
            return self.render(-1, 0, None, follow)
        finally:
            if saved is None:
                del self.by_stream[-1]
            else:
                self.by_stream[-1] = saved

    def stream_alts_sites(self, local, _sites=()):
        """like stream_alts, with the blocks of the assignments through which each stream reaches
        `local` (`let x = if c { piece_a } else { piece_b }`: piece_a reaches x in the then-block)"""
        if local is None:
            return []
        if local in self.by_stream:
            return [(local, _sites)]
        out = []
        for d in self.b.defs().get(local, []):
            if d[2] != "assign":
                continue
            r = d[3]["r"]
            op = None
            if r["k"] == "use":
                op = r["op"]
            elif r["k"] == "aggregate" and r.get("agg") == "adt" and r.get("variant") == "Some" and len(r["ops"]) == 1 and str(r.get("adt", "")).endswith("Option"):
                op = r["ops"][0]
            if op is not None and op["k"] in ("copy", "move") and not op["p"]["proj"]:
                for x in self.stream_alts_sites(op["p"]["local"], _sites + (d[0],)):
                    if x not in out:
                        out.append(x)
        return out

    def stream_alts(self, local):
        """Stream locals (built in this fn) that may flow by move into `local`."""
        if local is None:
            return []
        if local in self.by_stream:
            return [local]
        out = []
        for d in self.b.defs().get(local, []):
            if d[2] != "assign":
                continue
            r = d[3]["r"]
            op = None
            if r["k"] == "use":
                op = r["op"]
            elif r["k"] == "aggregate" and r.get("agg") == "adt" and r.get("variant") == "Some" and len(r["ops"]) == 1 and str(r.get("adt", "")).endswith("Option"):
                op = r["ops"][0]          # `Some(quote!(..))`: the tokens of an optional piece
            if op is not None and op["k"] in ("copy", "move") and not op["p"]["proj"]:
                for x in self.stream_alts(op["p"]["local"]):
                    if x not in out:
                        out.append(x)
        return out

    def root_streams(self):
        """Streams that are not the inner stream of a group / append of another stream."""
        inner = {tk.inner for tk in self.events if tk.inner is not None}
        for tk in self.events:
            if tk.kind == "interp":
                inner |= set(self.stream_alts(tk.src))
            if tk.kind == "append":
                inner |= set(self.stream_alts(tk.inner))
        return [s for s in self.by_stream if s not in inner]

    def all_tokens(self, kinds=("ident",)):
        return [tk for tk in self.events if tk.kind in kinds]

    def stream_tokens(self, stream, locals_too=False, _depth=0):
        """Depth-first list of Tok objects of `stream` including nested groups; with locals_too
        also the tokens of streams built in this fn and interpolated (`let x = quote!(..);
        quote!(.. #x ..)` reads like the template written in one piece)."""
        out = []
        for tk in self.by_stream.get(stream, []):
            out.append(tk)
            if tk.kind in ("group", "append") and tk.inner in self.by_stream and tk.inner != stream:
                out.extend(self.stream_tokens(tk.inner, locals_too, _depth + 1))
            elif locals_too and tk.kind == "interp" and _depth < 6:
                for alt in self.stream_alts(tk.src):
                    if alt in self.by_stream and alt != stream:
                        out.extend(self.stream_tokens(alt, locals_too, _depth + 1))
        return out

    def text(self, stream):
        return " ".join(self.render(stream))


def expand_alts(toks, limit=24):
    """the token lists a rendered template stands for: each `⟨alt A ¦ B ⟩` replaced by one of its
    alternatives (all combinations, at most `limit`)"""
    def parse(i):
        """sequence until a closing marker; returns (list of items, next index); an item is a str or
        ('alt', [seq, seq, ..])"""
        seq = []
        while i < len(toks):
            t = toks[i]
            if t == "⟨alt":
                alts = []
                i += 1
                while True:
                    sub, i = parse(i)
                    alts.append(sub)
                    if i < len(toks) and toks[i] == "¦":
                        i += 1
                        continue
                    break
                if i < len(toks) and toks[i] == "⟩":
                    i += 1
                seq.append(("alt", alts))
            elif t in ("¦", "⟩"):
                return seq, i
            else:
                seq.append(t)
                i += 1
        return seq, i

    def flat(seq):
        outs = [[]]
        for it in seq:
            if isinstance(it, tuple):
                choices = []
                for a in it[1]:
                    choices.extend(flat(a))
                outs = [o + c for o in outs for c in choices][:limit]
            else:
                for o in outs:
                    o.append(it)
        return outs

    seq, _ = parse(0)
    return flat(seq)


def alpha(text):
    """Rendered template text with the plain (non `__`) binders it introduces renamed to $1, $2, … in
    order of binding: `let x`, `let mut x`, `ref x`, `for x in`, `| x |`.  Renaming such a local in the
    generator does not change the result."""
    toks = text.split(" ")
    names = {}

    def bind(n):
        if re.match(r"^[a-z_][A-Za-z0-9_]*$", n) and not n.startswith("__") and n not in ("mut", "ref", "_", "self") and n not in names:
            names[n] = "$%d" % (len(names) + 1)

    for i, t in enumerate(toks):
        if t == "let" and i + 1 < len(toks):
            j = i + 2 if toks[i + 1] == "mut" and i + 2 < len(toks) else i + 1
            if j + 1 < len(toks) and toks[j + 1] in ("=", ":", ";"):
                bind(toks[j])
        elif t == "ref" and i + 1 < len(toks):
            j = i + 2 if toks[i + 1] == "mut" and i + 2 < len(toks) else i + 1
            bind(toks[j])
        elif t == "for" and i + 2 < len(toks) and toks[i + 2] == "in":
            bind(toks[i + 1])
        elif t == "|" and i + 2 < len(toks) and toks[i + 2] == "|":
            bind(toks[i + 1])
    return " ".join(names.get(t, t) for t in toks)


def tag(ty):
    """interpolated type as shown in rendered templates: reference levels are dropped, `#x` prints
    the same tokens whether x is a T, a &T or a &&T"""
    ty = (ty or "?").replace("&", "")
    # a Cow prints as what it holds; a String prints as the str it holds
    for _ in range(3):
        ty2 = re.sub(r"alloc::borrow::Cow<'_, ((?:[^<>]|<[^<>]*>)*)>", r"\1", ty)
        if ty2 == ty:
            break
        ty = ty2
    return re.sub(r"\balloc::string::String\b", "str", ty)


def _loop_blocks(body, headers):
    """Blocks that belong to some natural loop."""
    out = set()
    preds = body.preds()
    for h in headers:
        for (p, lab) in preds.get(h, []):
            if body.dominates(h, p):
                # natural loop of back edge p -> h
                st = [p]
                loop = {h}
                while st:
                    x = st.pop()
                    if x in loop:
                        continue
                    loop.add(x)
                    for (q, _) in preds.get(x, []):
                        st.append(q)
                out |= loop
    return out


def _unescape(s):
    try:
        return bytes(s, "utf-8").decode("unicode_escape") if "\\" in s else s
    except Exception:
        return s

"""Whole-body scans shared by several properties: accumulator typestate (T), error discipline
census (D), panic census (C), exhaustive-switch (E)."""
import re

from . import mir

ACC = "darling_core::error::Accumulator"
ERR = "darling_core::error::Error"


def is_test_body(b):
    k = b.key
    return "::tests::" in k or k.endswith("::tests") or "::test::" in k


# ------------------------------------------------------------------ drop-flag feasibility
def flag_locals(body):
    """Locals of type bool all of whose definitions are constant assignments (drop flags)."""
    out = set()
    for l, ds in body.defs().items():
        if body.local_ty(l) != "bool" or not ds:
            continue
        ok = True
        for d in ds:
            if d[2] != "assign":
                ok = False
                break
            r = d[3]["r"]
            if not (r["k"] == "use" and r["op"]["k"] == "const" and r["op"]["text"] in ("const true", "const false", "true", "false")):
                ok = False
                break
        if ok and 1 > 0 and l > body.arg_count:
            out.add(l)
    return out


def flag_states(body):
    """Forward may-analysis of drop flags: block -> {flag: set(bool)} at block entry."""
    flags = flag_locals(body)
    if not flags:
        return {}, flags
    state = {0: {f: {False} for f in flags}}
    work = [0]
    nblocks = len(body.blocks)

    def transfer(b, st):
        st = {f: set(v) for f, v in st.items()}
        for s in body.blocks[b]["stmts"]:
            if s["k"] == "assign" and not s["p"]["proj"] and s["p"]["local"] in flags:
                st[s["p"]["local"]] = {s["r"]["op"]["text"] in ("const true", "true")}
        return st

    while work:
        b = work.pop()
        out = transfer(b, state[b])
        t = body.term(b)
        for lab, tb in body.succ_edges(b, with_unwind=True):
            o2 = out
            if t["k"] == "switch" and t["discr"]["k"] in ("copy", "move") and not t["discr"]["p"]["proj"] and t["discr"]["p"]["local"] in flags and lab[0] == "sw":
                f = t["discr"]["p"]["local"]
                vals = [v for v, _ in t["targets"]]
                if lab[1] == "otherwise":
                    allowed = {True, False} - {bool(v) for v in vals}
                else:
                    allowed = {bool(lab[1])}
                nv = out[f] & allowed
                if not nv:
                    continue
                o2 = dict(out)
                o2[f] = nv
            cur = state.get(tb)
            if cur is None:
                state[tb] = {f: set(v) for f, v in o2.items()}
                work.append(tb)
            else:
                ch = False
                for f in flags:
                    if not o2[f] <= cur[f]:
                        cur[f] |= o2[f]
                        ch = True
                if ch:
                    work.append(tb)
    return state, flags


def feasible_blocks(body):
    """Blocks reachable on the normal CFG when drop-flag tests are taken into account."""
    state, flags = flag_states(body)
    if not flags:
        return body.normal_blocks()
    seen = set()
    st = [0]
    while st:
        b = st.pop()
        if b in seen or b not in state:
            continue
        seen.add(b)
        t = body.term(b)
        for lab, tb in body.succ_edges(b):
            if t["k"] == "switch" and t["discr"]["k"] in ("copy", "move") and not t["discr"]["p"]["proj"] and t["discr"]["p"]["local"] in flags and lab[0] == "sw":
                f = t["discr"]["p"]["local"]
                # value of flag at the end of block b
                cur = {x: set(v) for x, v in state[b].items()}
                for s in body.blocks[b]["stmts"]:
                    if s["k"] == "assign" and not s["p"]["proj"] and s["p"]["local"] in flags:
                        cur[s["p"]["local"]] = {s["r"]["op"]["text"] in ("const true", "true")}
                vals = [v for v, _ in t["targets"]]
                allowed = ({True, False} - {bool(v) for v in vals}) if lab[1] == "otherwise" else {bool(lab[1])}
                if not (cur[f] & allowed):
                    continue
            st.append(tb)
    return seen


# ------------------------------------------------------------------ T: accumulator typestate
def live_drops(body, type_substr):
    """Non-cleanup, flag-feasible Drop terminators whose place type mentions `type_substr` by value."""
    out = []
    feas = None
    for b, blk in enumerate(body.blocks):
        if blk["cleanup"]:
            continue
        t = blk["term"]
        if t["k"] != "drop":
            continue
        ty = t["ty"]["s"]
        if type_substr not in ty:
            continue
        if ty.startswith("&"):
            continue
        if feas is None:
            feas = feasible_blocks(body)
        if b not in feas:
            continue
        out.append((b, t))
    return out


def mem_drops(body, type_substr):
    out = []
    for b, t in body.calls():
        ci = mir.callee_info(t)
        if ci and ci["fn"] in ("core::mem::drop", "core::mem::forget") and any(type_substr in a for a in ci.get("targs", [])):
            out.append((b, t))
    return out


# ------------------------------------------------------------------ C: panic census
PANIC_CALLEES = [
    (r"^core::panicking::", "panic"),
    (r"^std::rt::begin_panic", "panic"),
    (r"^core::option::Option::<T>::(unwrap|expect)$", "option-unwrap"),
    (r"^core::result::Result::<T, E>::(unwrap|expect|unwrap_err|expect_err)$", "result-unwrap"),
    (r"^core::option::(unwrap_failed|expect_failed)", "option-unwrap"),
    (r"^core::result::unwrap_failed", "result-unwrap"),
    (r"as core::ops::index::Index(Mut)?<.*>>::index(_mut)?$", "index"),
    (r"<impl core::ops::index::Index(Mut)?<.*> for .*>::index(_mut)?$", "index"),
    (r"^core::slice::index::", "index"),
    (r"^proc_macro2::Ident::new(_raw)?$", "ident-new"),
    (r"^syn::parse_quote::parse$", "parse-quote"),
    (r"^proc_macro2::Span::unwrap$", "span-unwrap"),
    (r"^core::cell::RefCell::<T>::(borrow|borrow_mut)$", "refcell-borrow"),
    (r"^alloc::vec::Vec::<T, A>::(remove|swap_remove|insert|split_off|drain)$", "vec-index-op"),
    (r"^core::slice::<impl \[T\]>::(split_at|split_at_mut|copy_from_slice|chunks|windows)$", "slice-op"),
    (r"^core::str::<impl str>::(split_at)$", "slice-op"),
    (r"^alloc::string::String::(remove|insert|insert_str|truncate|split_off|drain|replace_range)$", "string-index-op"),
    (r"^core::iter::traits::iterator::Iterator::step_by$", "step-by"),
    (r"^core::char::methods::<impl char>::(from_digit|to_digit)$", "char-digit"),
]
_PC = [(re.compile(rx), kind) for rx, kind in PANIC_CALLEES]


def panic_sites(body, feas=None):
    """Yield (block, kind, detail) of panic-capable constructs on non-cleanup, feasible blocks."""
    if feas is None:
        feas = feasible_blocks(body)
    for b, blk in enumerate(body.blocks):
        if blk["cleanup"] or b not in feas:
            continue
        t = blk["term"]
        if t["k"] in ("call", "tailcall"):
            ci = mir.callee_info(t)
            if ci:
                names = [ci.get("resolved"), ci.get("fn")]
                hit = None
                for rx, kind in _PC:
                    if any(n and rx.search(n) for n in names):
                        hit = kind
                        break
                if hit:
                    yield b, hit, (ci.get("resolved") or ci["fn"])
        elif t["k"] == "assert":
            m = t["msg"].split("{")[0].split("(")[0].strip()
            kind = {"BoundsCheck": "bounds-assert", "Overflow": "overflow-assert", "OverflowNeg": "overflow-assert",
                    "DivisionByZero": "div-assert", "RemainderByZero": "div-assert"}.get(m, "assert-" + m)
            yield b, kind, t["msg_full"][:80]


def is_macro_generated_fmt(t):
    return False


# ------------------------------------------------------------------ E: exhaustive switch
def switch_variants(body, blk):
    """For a switch on an enum discriminant return (adt, all variant names, {variant: target}, otherwise target)."""
    t = body.term(blk)
    if t["k"] != "switch" or t["discr"]["k"] not in ("copy", "move"):
        return None
    l = t["discr"]["p"]["local"]
    for d in body.defs().get(l, []):
        if d[2] == "assign" and d[3]["r"]["k"] == "discr" and d[3]["r"].get("variants"):
            r = d[3]["r"]
            by_val = {v["val"]: v["name"] for v in r["variants"]}
            m = {}
            for val, tb in t["targets"]:
                m[by_val.get(val, str(val))] = tb
            return r["adt"], [v["name"] for v in r["variants"]], m, t["otherwise"], r
    return None


def reaches_panic(body, start, limit=12):
    """Does the block `start` lead (through gotos/calls without branching) to a diverging panic call
    or `unreachable`?  Returns 'panic' | 'unreachable' | None."""
    b = start
    for _ in range(limit):
        t = body.term(b)
        if t["k"] == "unreachable":
            return "unreachable"
        if t["k"] == "call":
            ci = mir.callee_info(t)
            name = (ci.get("resolved") or ci["fn"]) if ci else ""
            if t["target"] is None:
                return "panic" if (name.startswith("core::panicking::") or name.startswith("std::rt::begin_panic")) else "diverge"
            b = t["target"]
            continue
        if t["k"] == "goto":
            b = t["target"]
            continue
        return None
    return None

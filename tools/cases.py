#!/usr/bin/env python3
"""tools/cases.py <fn key regex>: print the result-algebra case table of matching functions"""
import sys, re
sys.path.insert(0, __file__.rsplit("/tools/", 1)[0])
from vlib import rules, resalg
ctx = rules.Ctx("C00")
for f in ctx.fns_matching(sys.argv[1]):
    if f.kind == "Closure":
        continue
    print("==", f.key)
    for conds, v in resalg.cases(ctx, f):
        print("   ", " & ".join(conds) or "true", " => ", v[:260])

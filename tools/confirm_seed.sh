#!/bin/bash
# tools/confirm_seed.sh <patch.diff> <demo.rs> — confirm a seeded change in a FRESH scratch worktree of /repo HEAD:
#  the suite passes with the change, the demo fails with it and passes without it. No git stash (shared across worktrees).
set -u
patch=$(readlink -f "$1"); demo=$(readlink -f "$2")
w=/tmp/seedchk/wt; rm -rf $w; git -C /repo worktree prune; git -C /repo worktree add -q --detach $w HEAD || exit 2
export CARGO_TARGET_DIR=/tmp/seedchk/target
cd $w
git apply "$patch" || { echo "PATCH DOES NOT APPLY"; git -C /repo worktree remove --force $w; exit 2; }
suite=$(cargo test --workspace --no-fail-fast --offline 2>&1 | grep -E "^test result" | awk '{p+=$4; f+=$6} END {print p" passed "f" failed"}')
cp "$demo" tests/seeded_demo.rs
with=$(cargo test --offline --test seeded_demo 2>&1 | grep -E "^test result|could not compile" | head -1)
git apply -R "$patch"
without=$(cargo test --offline --test seeded_demo 2>&1 | grep -E "^test result|could not compile" | head -1)
echo "SUITE(with change): $suite"
echo "DEMO with change: $with"
echo "DEMO without change: $without"
cd /; git -C /repo worktree remove --force $w

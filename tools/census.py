#!/usr/bin/env python3
import sys, os, collections
sys.path.insert(0, os.path.dirname(os.path.dirname(os.path.abspath(__file__))))
from vlib import rules, scan, mir
ctx = rules.Ctx("CENSUS")
core = ctx.core("on")
print("== live Accumulator drops")
for b in ctx.all_bodies(core):
    for blk,t in scan.live_drops(b, scan.ACC): print("  ", b.key, "bb%d"%blk, t["ty"]["s"], "TEST" if scan.is_test_body(b) else "")
print("== live Error-carrying drops")
for b in ctx.all_bodies(core):
    if scan.is_test_body(b): continue
    for blk,t in scan.live_drops(b, scan.ERR): print("  ", b.key, "bb%d"%blk, t["ty"]["s"])
print("== panic sites (non-test)")
cnt=collections.Counter()
for b in ctx.all_bodies(core):
    if scan.is_test_body(b) or b.derived: continue
    for blk,kind,detail in scan.panic_sites(b):
        cnt[(b.key,kind)]+=1
for (k,kind),n in sorted(cnt.items()): print("  %-110s %-16s %d"%(k,kind,n))
print(len(cnt), sum(cnt.values()))
print("== path conditions of panic sites")
IGN=("assert-MisalignedPointerDereference","assert-NullPointerDereference")
for b in ctx.all_bodies(core):
    if scan.is_test_body(b) or b.derived: continue
    for blk,kind,detail in scan.panic_sites(b):
        if kind.startswith(IGN): continue
        try:
            d = ctx.pc_strs(b, blk)
        except Exception as e:
            d = [["ERR %s"%e]]
        print("  %s [%s] bb%d %s"%(b.key,kind,blk,detail))
        for cs in d: print("        | "+" & ".join(sorted(cs)))

#!/usr/bin/env python3
"""Dump the templates recovered from MIR: tools/tpl.py <key-substring>"""
import sys, os
sys.path.insert(0, os.path.dirname(os.path.dirname(os.path.abspath(__file__))))
from vlib import rules, tpl
ctx = rules.Ctx("TPL")
core = ctx.core("on")
for b in ctx.all_bodies(core):
    if sys.argv[1] in b.key and "::tests::" not in b.key:
        T = tpl.Templates(b)
        if not T.events: continue
        print("==", b.key)
        for s in T.root_streams():
            blk = T.by_stream[s][0].blk
            print("  stream _%s @bb%d  PC=%s" % (s, blk, [sorted(x) for x in ctx.pc_strs(b, blk)][:3]))
            print("     ", T.text(s)[:1500])

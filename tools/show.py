#!/usr/bin/env python3
"""Pretty-print bodies from the fact cache: tools/show.py <crate> <key-substring> [--all]"""
import sys, os
sys.path.insert(0, os.path.dirname(os.path.dirname(os.path.abspath(__file__))))
from vlib import facts, mir
crates = facts.load_crates(os.environ.get("RUN","r1"))
prog = mir.Program(crates)
cr, pat = sys.argv[1], sys.argv[2]
seen=set()
for b in prog.bodies:
    if b.crate["crate"] != cr: continue
    if cr=="darling_core" and (b.crate["test"] or "suggestions" not in b.crate["features"]): continue
    if pat in b.key and b.key not in seen:
        seen.add(b.key)
        if "--list" in sys.argv: print(b.key, b.file, b.span["line"])
        else: print(b.pretty(cleanup="--cleanup" in sys.argv)); print()

#!/bin/sh
# tools/withpatch.sh <abs patch> <command…>: run a command with the patch applied to /repo, then restore
p=$1; shift
git -C /repo diff --quiet || { echo "repo dirty"; exit 2; }
git -C /repo apply "$p" || exit 2
"$@"; rc=$?
git -C /repo checkout -- .
exit $rc

#!/usr/bin/env python3
"""tools/allseeds.py [seed ids…]: run every stored seeded change against its own property's quick
check (and report which other properties also fire).  Exit 1 when a seed is missed."""
import json, os, subprocess, sys
V = os.path.dirname(os.path.dirname(os.path.abspath(__file__)))
ids = sys.argv[1:] or sorted(os.listdir(os.path.join(V, "seeded")))
missed = []
for sid in ids:
    d = os.path.join(V, "seeded", sid)
    meta = json.load(open(os.path.join(d, "meta.json")))
    pid = meta.get("property") or sid.split("-")[1]
    p = subprocess.run([sys.executable, os.path.join(V, "tools", "seedtest.py"), os.path.join(d, "patch.diff"), pid], stdout=subprocess.PIPE, stderr=subprocess.STDOUT, text=True)
    try:
        res = json.loads(p.stdout)
    except ValueError:
        print(sid, "ERROR", p.stdout[-300:])
        missed.append(sid)
        continue
    rules = res["detail"].get(pid, {}).get("rules", [])
    fail = res["detail"].get(pid, {}).get("fail", [])
    ok = pid in res["caught_by"] and rules and not fail
    print("%-10s %s %s %s" % (sid, "caught" if ok else "MISSED", rules[:4], fail))
    if not ok:
        missed.append(sid)
print("missed:", missed)
sys.exit(1 if missed else 0)

#!/usr/bin/env python3
"""Run the checks against a seeded change: tools/seedtest.py <patch.diff> [IDs…]

Applies the patch to /repo (git apply), runs the quick checks, prints which properties report a
VIOLATION (and the violated rules), and always restores /repo (git checkout -- .).
"""
import json
import os
import subprocess
import sys

V = os.path.dirname(os.path.dirname(os.path.abspath(__file__)))
REPO = "/repo"


def sh(cmd, cwd=None):
    return subprocess.run(cmd, cwd=cwd, stdout=subprocess.PIPE, stderr=subprocess.STDOUT, text=True)


def main():
    patch = os.path.abspath(sys.argv[1])
    ids = sys.argv[2:] or ["C%02d" % i for i in range(1, 21)]
    if sh(["git", "diff", "--quiet"], REPO).returncode != 0:
        print("repo dirty; refusing")
        return 2
    a = sh(["git", "apply", patch], REPO)
    if a.returncode != 0:
        print("patch does not apply:", a.stdout[-500:])
        return 2
    res = {}
    try:
        for pid in ids:
            p = sh([os.path.join(V, "check"), pid, "quick"], V)
            lines = p.stdout.strip().split("\n")
            viol = [l.strip() for l in lines if l.strip().startswith("violation rule=")]
            res[pid] = {"rc": p.returncode, "rules": sorted({v.split()[1] for v in viol}), "first": [v[:260] for v in viol[:3]], "fail": [l for l in lines if "FACT-BUILD-FAILED" in l or "Traceback" in l][:1]}
    finally:
        sh(["git", "checkout", "--", "."], REPO)
        sh(["git", "clean", "-fdq", "tests/seeded_demo.rs"], REPO)
    caught = {k: v for k, v in res.items() if v["rc"] != 0}
    print(json.dumps({"caught_by": sorted(caught), "detail": caught}, indent=1))
    return 0


if __name__ == "__main__":
    sys.exit(main())

#!/usr/bin/env python3
"""Regenerate /verif/MANIFEST.json from the property modules present in props/ (META dicts)."""
import importlib, json, os, sys
V = os.path.dirname(os.path.dirname(os.path.abspath(__file__)))
sys.path.insert(0, V)
props = [json.loads(l) for l in open(os.path.join(V, "properties.jsonl"))]
checks, na = [], []
NA_REASONS = {}
for p in props:
    pid = p["id"]
    path = os.path.join(V, "props", pid + ".py")
    if os.path.exists(path):
        mod = importlib.import_module("props." + pid)
        meta = getattr(mod, "META", {})
        checks.append({
            "property_id": pid,
            "quick_cmd": "./check %s quick" % pid,
            "thorough_cmd": "./check %s thorough" % pid,
            "evidence_file": "/verif/evidence/%s.json" % pid,
            "replay_cmd_template": "./check %s quick  # violations are listed with rule/function/event in {path}" % pid,
            "engine": "mirdump+rules",
            "level_claimed": {
                "category": "other",
                "text": meta.get("level", "static analysis of the type-checked MIR of darling_core (and of the code its derives generate): rule instances over resolved callees, path conditions and templates; see DESIGN.md"),
                "design_ref": "DESIGN.md section 3, " + pid,
            },
            "level_note": meta.get("note", "trusted base: rustc MIR construction, drop elaboration and Instance::try_resolve (nightly 1.97); the rule layer; value-level remainder is not decided (DESIGN.md section 3)"),
            "technique": meta.get("technique", "static analysis: MIR dataflow / path-condition rules over resolved callees"),
        })
    else:
        na.append({"property_id": pid, "reason": NA_REASONS.get(pid, "check not built yet (implementation in progress); see DESIGN.md section 3")})
m = {
    "version": 1,
    "setup_cmd": "cd /verif/engines/mirdump && CARGO_NET_OFFLINE=true cargo build --offline",
    "hooks": {
        "guard": "teddriggs_darling_verif",
        "enable": "none: static analysis reads the tree as it is; no instrumentation exists in /repo",
        "baseline_off_cmd": "cd /repo && cargo test --workspace --no-fail-fast --offline",
        "source_commits": [],
        "add_only": True,
    },
    "engines": [
        {"name": "mirdump", "path": "/verif/engines/mirdump", "serves_properties": [c["property_id"] for c in checks],
         "kind_free_text": "rustc_private driver (nightly) exporting type-checked MIR facts with resolved callees; injected with RUSTC_WORKSPACE_WRAPPER under cargo +nightly check"},
        {"name": "rules", "path": "/verif/vlib + /verif/props", "serves_properties": [c["property_id"] for c in checks],
         "kind_free_text": "Python rule layer: edge-split dominators, projected path conditions, def-chasing, template IR recovered from quote! expansions, census tables"},
    ],
    "checks": checks,
    "notes": "Static-analysis family only. Known genuine defects are listed in /verif/known_findings.json and reported as KNOWN-FINDING lines.",
    "not_applicable": na,
}
json.dump(m, open(os.path.join(V, "MANIFEST.json"), "w"), indent=1)
print("checks:", [c["property_id"] for c in checks], "n/a:", len(na))

#!/usr/bin/env python3
import sys, os, collections
sys.path.insert(0, os.path.dirname(os.path.dirname(os.path.abspath(__file__))))
from vlib import rules, scan, mir
from props import common
ctx = rules.Ctx("CENSUS")
cnt=collections.Counter(); nb=0; kinds=collections.Counter()
for c in ctx.test_crates():
    for b in ctx.all_bodies(c):
        if not b.derived: continue
        nb+=1
        kinds[(b.impl or {}).get("trait")]+=1
        for blk,kind,detail in scan.panic_sites(b):
            if kind.startswith(common.IGNORED_ASSERTS): continue
            cnt[(b.key.split("::")[-1] if not b.key.startswith("<") else b.key.rsplit("::",1)[-1], kind, detail)]+=1
        for blk,t in scan.live_drops(b, scan.ACC): print("ACC DROP", b.key)
        for blk,t in scan.live_drops(b, scan.ERR): print("ERR DROP", b.key, t["ty"]["s"])
print(nb, kinds)
for k,n in sorted(cnt.items()): print(k,n)

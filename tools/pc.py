#!/usr/bin/env python3
"""Show path conditions of every call / aggregate event in a function: tools/pc.py <crate> <key>"""
import sys, os
sys.path.insert(0, os.path.dirname(os.path.dirname(os.path.abspath(__file__))))
from vlib import facts, mir, sym
crates = facts.load_crates("r1")
prog = mir.Program(crates)
cr, pat = sys.argv[1], sys.argv[2]
for b in prog.bodies:
    if b.crate["crate"] != cr or b.key != pat: continue
    if cr=="darling_core" and (b.crate["test"] or "suggestions" not in b.crate["features"]): continue
    S = sym.Sym(b); P = sym.PathCond(b, S)
    print(b.key)
    for blk, t in b.calls():
        c = mir.callee_of(t)
        conds = P.conditions(blk)
        print("  bb%d call %s(%s)" % (blk, c, ", ".join(S.show(S.operand(a)) for a in t["args"])))
        for cs in conds:
            print("      | " + " & ".join(sorted(sym.atom_str(e, v, S) for e, v in cs)))
    for blk, i, st in b.stmts():
        if st["k"]=="assign" and (st["r"]["k"]=="aggregate" and st["r"]["agg"]=="adt" or st["p"]["proj"]):
            conds = P.conditions(blk)
            print("  bb%d %s = %s" % (blk, mir.place_str(st["p"]), S.show(S.rvalue(st["r"]))))
            for cs in conds:
                print("      | " + " & ".join(sorted(sym.atom_str(e, v, S) for e, v in cs)))
    break

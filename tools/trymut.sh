#!/bin/bash
# tools/trymut.sh '<sed-expr>' <file-relative-to-/repo> <ID> [ID...]   — apply a one-line mutant, run checks, revert
set -u
expr="$1"; file="$2"; shift 2
cd /repo && git diff --quiet || { echo "repo dirty"; exit 2; }
sed -i -E "$expr" "/repo/$file"
git -C /repo diff --stat | tail -1
if git -C /repo diff --quiet; then echo "MUTANT DID NOT APPLY"; exit 2; fi
for id in "$@"; do (cd /verif && ./check $id quick 2>&1 | tail -6 | cut -c1-700); done
git -C /repo checkout -- .

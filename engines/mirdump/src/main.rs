// mirdump: rustc_private driver that exports type-checked MIR facts of the crate being
// compiled as one JSON file per rustc process (see /verif/DESIGN.md section 2.1).
//
// Invocation: RUSTC_WORKSPACE_WRAPPER=<this binary>; cargo passes the real rustc as argv[1].
// Output: $MIRDUMP_OUT/<crate>-<hash of cfg/features + metadata>.json (one write per process).
#![feature(rustc_private)]

extern crate rustc_abi;
extern crate rustc_driver;
extern crate rustc_hir;
extern crate rustc_interface;
extern crate rustc_middle;
extern crate rustc_session;
extern crate rustc_span;

use std::collections::{BTreeMap, HashSet as BTreeSet, VecDeque};
use std::fmt::Write as _;

use rustc_hir::def::DefKind;
use rustc_hir::def_id::{DefId, LOCAL_CRATE};
use rustc_middle::mir::{
    AggregateKind, BasicBlockData, Body, Const, Operand, Place, PlaceElem, PlaceTy, Rvalue,
    StatementKind, TerminatorKind, VarDebugInfoContents,
};
use rustc_middle::ty::print::{with_no_trimmed_paths as wntp, with_no_visible_paths, with_resolve_crate_name};

macro_rules! with_no_trimmed_paths {
    ($e:expr) => {
        with_resolve_crate_name!(wntp!(with_no_visible_paths!($e)))
    };
}
use rustc_middle::ty::{self, Instance, Ty, TyCtxt, TypingEnv};
use rustc_span::Span;

// ----------------------------------------------------------------------------------------------
// Minimal JSON value + writer (zero dependencies)
// ----------------------------------------------------------------------------------------------
enum J {
    Null,
    Bool(bool),
    Num(i128),
    Str(String),
    Arr(Vec<J>),
    Obj(Vec<(&'static str, J)>),
    Map(BTreeMap<String, J>),
}

fn s<T: Into<String>>(x: T) -> J {
    J::Str(x.into())
}

fn esc(out: &mut String, v: &str) {
    out.push('"');
    for c in v.chars() {
        match c {
            '"' => out.push_str("\\\""),
            '\\' => out.push_str("\\\\"),
            '\n' => out.push_str("\\n"),
            '\r' => out.push_str("\\r"),
            '\t' => out.push_str("\\t"),
            c if (c as u32) < 0x20 => {
                let _ = write!(out, "\\u{:04x}", c as u32);
            }
            c => out.push(c),
        }
    }
    out.push('"');
}

impl J {
    fn write(&self, out: &mut String) {
        match self {
            J::Null => out.push_str("null"),
            J::Bool(b) => out.push_str(if *b { "true" } else { "false" }),
            J::Num(n) => {
                let _ = write!(out, "{}", n);
            }
            J::Str(v) => esc(out, v),
            J::Arr(v) => {
                out.push('[');
                for (i, x) in v.iter().enumerate() {
                    if i > 0 {
                        out.push(',');
                    }
                    x.write(out);
                }
                out.push(']');
            }
            J::Obj(v) => {
                out.push('{');
                for (i, (k, x)) in v.iter().enumerate() {
                    if i > 0 {
                        out.push(',');
                    }
                    esc(out, k);
                    out.push(':');
                    x.write(out);
                }
                out.push('}');
            }
            J::Map(v) => {
                out.push('{');
                for (i, (k, x)) in v.iter().enumerate() {
                    if i > 0 {
                        out.push(',');
                    }
                    esc(out, k);
                    out.push(':');
                    x.write(out);
                }
                out.push('}');
            }
        }
    }
}

// ----------------------------------------------------------------------------------------------

struct Cx<'tcx> {
    tcx: TyCtxt<'tcx>,
    adts: BTreeSet<DefId>,
}

fn path(tcx: TyCtxt<'_>, d: DefId) -> String {
    with_no_trimmed_paths!(tcx.def_path_str(d))
}

fn tys(t: Ty<'_>) -> String {
    with_no_trimmed_paths!(t.to_string())
}

fn span_loc(tcx: TyCtxt<'_>, sp: Span) -> J {
    let sm = tcx.sess.source_map();
    let lo = sm.lookup_char_pos(sp.lo());
    let hi = sm.lookup_char_pos(sp.hi());
    let file = match &lo.file.name {
        rustc_span::FileName::Real(r) => match r.local_path() {
            Some(p) => p.to_string_lossy().into_owned(),
            None => format!("{:?}", r),
        },
        other => format!("{:?}", other),
    };
    J::Obj(vec![
        ("file", s(file)),
        ("line", J::Num(lo.line as i128)),
        ("col", J::Num(lo.col.0 as i128)),
        ("end_line", J::Num(hi.line as i128)),
    ])
}

fn expn_of(sp: Span) -> J {
    if !sp.from_expansion() {
        return J::Null;
    }
    let d = sp.ctxt().outer_expn_data();
    s(format!("{:?}", d.kind))
}

impl<'tcx> Cx<'tcx> {
    fn note_ty(&mut self, t: Ty<'tcx>) {
        // record every ADT mentioned anywhere inside the type
        for arg in t.walk() {
            if let Some(t) = arg.as_type() {
                if let ty::Adt(def, _) = t.kind() {
                    self.adts.insert(def.did());
                }
            }
        }
    }

    fn ty_obj(&mut self, t: Ty<'tcx>) -> J {
        self.note_ty(t);
        let mut peeled = t;
        let mut refs = 0;
        loop {
            match peeled.kind() {
                ty::Ref(_, inner, _) => {
                    peeled = *inner;
                    refs += 1;
                }
                _ => break,
            }
        }
        let adt = match peeled.kind() {
            ty::Adt(def, _) => s(path(self.tcx, def.did())),
            _ => J::Null,
        };
        J::Obj(vec![("s", s(tys(t))), ("adt", adt), ("refs", J::Num(refs))])
    }

    fn place(&mut self, body: &Body<'tcx>, p: &Place<'tcx>) -> J {
        let tcx = self.tcx;
        let mut pty = PlaceTy::from_ty(body.local_decls[p.local].ty);
        let mut proj = Vec::new();
        for elem in p.projection.iter() {
            let j = match elem {
                PlaceElem::Deref => J::Obj(vec![("k", s("deref"))]),
                PlaceElem::Field(f, fty) => {
                    let mut name = format!("{}", f.index());
                    if let ty::Adt(def, _) = pty.ty.kind() {
                        let v = match pty.variant_index {
                            Some(v) => Some(v),
                            None if def.is_struct() || def.is_union() => {
                                Some(rustc_abi::FIRST_VARIANT)
                            }
                            None => None,
                        };
                        if let Some(v) = v {
                            if let Some(fd) = def.variant(v).fields.get(f) {
                                name = fd.name.to_string();
                            }
                        }
                    }
                    J::Obj(vec![
                        ("k", s("field")),
                        ("i", J::Num(f.index() as i128)),
                        ("name", s(name)),
                        ("ty", s(tys(fty))),
                    ])
                }
                PlaceElem::Downcast(sym, v) => {
                    let name = match sym {
                        Some(sy) => sy.to_string(),
                        None => format!("{}", v.index()),
                    };
                    J::Obj(vec![("k", s("downcast")), ("variant", s(name)), ("vi", J::Num(v.index() as i128))])
                }
                PlaceElem::Index(l) => J::Obj(vec![("k", s("index")), ("local", J::Num(l.index() as i128))]),
                PlaceElem::ConstantIndex { offset, min_length, from_end } => J::Obj(vec![
                    ("k", s("constindex")),
                    ("offset", J::Num(offset as i128)),
                    ("min_length", J::Num(min_length as i128)),
                    ("from_end", J::Bool(from_end)),
                ]),
                PlaceElem::Subslice { .. } => J::Obj(vec![("k", s("subslice"))]),
                PlaceElem::OpaqueCast(_) => J::Obj(vec![("k", s("opaque"))]),
                PlaceElem::UnwrapUnsafeBinder(_) => J::Obj(vec![("k", s("unwrapbinder"))]),
            };
            proj.push(j);
            pty = pty.projection_ty(tcx, elem);
        }
        J::Obj(vec![
            ("local", J::Num(p.local.index() as i128)),
            ("proj", J::Arr(proj)),
            ("ty", s(tys(pty.ty))),
        ])
    }

    fn fn_const(&mut self, owner: DefId, def: DefId, args: ty::GenericArgsRef<'tcx>) -> Vec<(&'static str, J)> {
        let tcx = self.tcx;
        let mut v: Vec<(&'static str, J)> = Vec::new();
        v.push(("fn", s(path(tcx, def))));
        v.push(("fn_with_args", s(with_no_trimmed_paths!(tcx.def_path_str_with_args(def, args)))));
        let mut targs = Vec::new();
        for a in args.iter() {
            if let Some(t) = a.as_type() {
                self.note_ty(t);
                targs.push(s(tys(t)));
            }
        }
        v.push(("targs", J::Arr(targs)));
        // trait item?
        if let Some(tr) = tcx.trait_of_assoc(def) {
            v.push(("trait", s(path(tcx, tr))));
            v.push(("method", s(tcx.item_name(def).to_string())));
            if let Some(t0) = args.get(0).and_then(|a| a.as_type()) {
                v.push(("self_ty", s(tys(t0))));
            }
        }
        // resolution
        let env = TypingEnv::post_analysis(tcx, owner);
        let res = std::panic::catch_unwind(std::panic::AssertUnwindSafe(|| {
            Instance::try_resolve(tcx, env, def, args)
        }));
        match res {
            Ok(Ok(Some(inst))) => {
                let rd = inst.def_id();
                v.push(("resolved", s(path(tcx, rd))));
                v.push((
                    "resolved_with_args",
                    s(with_no_trimmed_paths!(tcx.def_path_str_with_args(rd, inst.args))),
                ));
                v.push(("resolved_kind", s(format!("{:?}", inst.def).split('(').next().unwrap_or("").to_string())));
            }
            _ => {
                v.push(("resolved", J::Null));
            }
        }
        v
    }

    fn operand(&mut self, owner: DefId, body: &Body<'tcx>, o: &Operand<'tcx>) -> J {
        match o {
            Operand::Copy(p) => J::Obj(vec![("k", s("copy")), ("p", self.place(body, p))]),
            Operand::Move(p) => J::Obj(vec![("k", s("move")), ("p", self.place(body, p))]),
            Operand::Constant(c) => {
                let t = c.const_.ty();
                let mut v: Vec<(&'static str, J)> = vec![("k", s("const"))];
                v.push(("text", s(with_no_trimmed_paths!(format!("{}", c.const_)))));
                v.push(("ty", s(tys(t))));
                match t.kind() {
                    ty::FnDef(def, args) => {
                        v.extend(self.fn_const(owner, *def, args));
                    }
                    _ => {}
                }
                if let Const::Unevaluated(u, _) = c.const_ {
                    v.push(("uneval", s(path(self.tcx, u.def))));
                }
                J::Obj(v)
            }
            _ => J::Obj(vec![("k", s("other")), ("text", s(format!("{:?}", o)))]),
        }
    }

    fn rvalue(&mut self, owner: DefId, body: &Body<'tcx>, r: &Rvalue<'tcx>) -> J {
        let tcx = self.tcx;
        match r {
            Rvalue::Use(o, _) => J::Obj(vec![("k", s("use")), ("op", self.operand(owner, body, o))]),
            Rvalue::Repeat(o, _) => J::Obj(vec![("k", s("repeat")), ("op", self.operand(owner, body, o))]),
            Rvalue::Ref(_, bk, p) => J::Obj(vec![
                ("k", s("ref")),
                ("mut", J::Bool(matches!(bk, rustc_middle::mir::BorrowKind::Mut { .. }))),
                ("p", self.place(body, p)),
            ]),
            Rvalue::RawPtr(_, p) => J::Obj(vec![("k", s("rawptr")), ("p", self.place(body, p))]),
            Rvalue::Cast(kind, o, t) => J::Obj(vec![
                ("k", s("cast")),
                ("cast", s(format!("{:?}", kind))),
                ("op", self.operand(owner, body, o)),
                ("to", s(tys(*t))),
            ]),
            Rvalue::BinaryOp(op, ops) => J::Obj(vec![
                ("k", s("binop")),
                ("op", s(format!("{:?}", op))),
                ("a", self.operand(owner, body, &ops.0)),
                ("b", self.operand(owner, body, &ops.1)),
            ]),
            Rvalue::UnaryOp(op, o) => J::Obj(vec![
                ("k", s("unop")),
                ("op", s(format!("{:?}", op))),
                ("a", self.operand(owner, body, o)),
            ]),
            Rvalue::Discriminant(p) => {
                let pt = p.ty(&body.local_decls, tcx).ty;
                let mut v = vec![("k", s("discr")), ("p", self.place(body, p))];
                if let ty::Adt(def, _) = pt.kind() {
                    if def.is_enum() {
                        v.push(("adt", s(path(tcx, def.did()))));
                        let mut vars = Vec::new();
                        for (vi, d) in def.discriminants(tcx) {
                            vars.push(J::Obj(vec![
                                ("name", s(def.variant(vi).name.to_string())),
                                ("val", J::Num(d.val as i128)),
                            ]));
                        }
                        v.push(("variants", J::Arr(vars)));
                    }
                }
                J::Obj(v)
            }
            Rvalue::Aggregate(kind, ops) => {
                let mut v = vec![("k", s("aggregate"))];
                match &**kind {
                    AggregateKind::Array(_) => v.push(("agg", s("array"))),
                    AggregateKind::Tuple => v.push(("agg", s("tuple"))),
                    AggregateKind::Adt(def, vi, _, _, _) => {
                        v.push(("agg", s("adt")));
                        let adt = tcx.adt_def(*def);
                        self.adts.insert(*def);
                        v.push(("adt", s(path(tcx, *def))));
                        let var = adt.variant(*vi);
                        v.push(("variant", s(var.name.to_string())));
                        v.push((
                            "fields",
                            J::Arr(var.fields.iter().map(|f| s(f.name.to_string())).collect()),
                        ));
                    }
                    AggregateKind::Closure(def, _) => {
                        v.push(("agg", s("closure")));
                        v.push(("closure", s(path(tcx, *def))));
                    }
                    AggregateKind::Coroutine(def, _) | AggregateKind::CoroutineClosure(def, _) => {
                        v.push(("agg", s("coroutine")));
                        v.push(("closure", s(path(tcx, *def))));
                    }
                    AggregateKind::RawPtr(..) => v.push(("agg", s("rawptr"))),
                }
                let mut os = Vec::new();
                for o in ops.iter() {
                    os.push(self.operand(owner, body, o));
                }
                v.push(("ops", J::Arr(os)));
                J::Obj(v)
            }
            Rvalue::CopyForDeref(p) => J::Obj(vec![
                ("k", s("use")),
                ("op", J::Obj(vec![("k", s("copy")), ("p", self.place(body, p))])),
            ]),
            other => J::Obj(vec![("k", s("other")), ("text", s(format!("{:?}", other)))]),
        }
    }

    fn block(&mut self, owner: DefId, body: &Body<'tcx>, id: usize, bb: &BasicBlockData<'tcx>) -> J {
        let tcx = self.tcx;
        let mut stmts = Vec::new();
        for st in &bb.statements {
            match &st.kind {
                StatementKind::Assign(b) => {
                    let (p, r) = &**b;
                    stmts.push(J::Obj(vec![
                        ("k", s("assign")),
                        ("p", self.place(body, p)),
                        ("r", self.rvalue(owner, body, r)),
                        ("line", J::Num(line_of(tcx, st.source_info.span))),
                        ("exp", J::Bool(st.source_info.span.from_expansion())),
                    ]));
                }
                StatementKind::SetDiscriminant { place, variant_index } => {
                    stmts.push(J::Obj(vec![
                        ("k", s("setdiscr")),
                        ("p", self.place(body, place)),
                        ("vi", J::Num(variant_index.index() as i128)),
                    ]));
                }
                _ => {}
            }
        }
        let term = bb.terminator();
        let tspan = term.source_info.span;
        let mut t: Vec<(&'static str, J)> = Vec::new();
        match &term.kind {
            TerminatorKind::Goto { target } => {
                t.push(("k", s("goto")));
                t.push(("target", J::Num(target.index() as i128)));
            }
            TerminatorKind::SwitchInt { discr, targets } => {
                t.push(("k", s("switch")));
                t.push(("discr", self.operand(owner, body, discr)));
                let mut tv = Vec::new();
                for (val, bb) in targets.iter() {
                    tv.push(J::Arr(vec![J::Num(val as i128), J::Num(bb.index() as i128)]));
                }
                t.push(("targets", J::Arr(tv)));
                t.push(("otherwise", J::Num(targets.otherwise().index() as i128)));
            }
            TerminatorKind::UnwindResume => t.push(("k", s("resume"))),
            TerminatorKind::UnwindTerminate(_) => t.push(("k", s("terminate"))),
            TerminatorKind::Return => t.push(("k", s("return"))),
            TerminatorKind::Unreachable => t.push(("k", s("unreachable"))),
            TerminatorKind::Drop { place, target, unwind, .. } => {
                t.push(("k", s("drop")));
                t.push(("p", self.place(body, place)));
                let pt = place.ty(&body.local_decls, tcx).ty;
                t.push(("ty", self.ty_obj(pt)));
                t.push(("target", J::Num(target.index() as i128)));
                t.push(("unwind", unwind_j(unwind)));
            }
            TerminatorKind::Call { func, args, destination, target, unwind, .. } => {
                t.push(("k", s("call")));
                t.push(("func", self.operand(owner, body, func)));
                let mut av = Vec::new();
                for a in args.iter() {
                    av.push(self.operand(owner, body, &a.node));
                }
                t.push(("args", J::Arr(av)));
                t.push(("dest", self.place(body, destination)));
                t.push((
                    "target",
                    match target {
                        Some(b) => J::Num(b.index() as i128),
                        None => J::Null,
                    },
                ));
                t.push(("unwind", unwind_j(unwind)));
            }
            TerminatorKind::TailCall { func, args, .. } => {
                t.push(("k", s("tailcall")));
                t.push(("func", self.operand(owner, body, func)));
                let mut av = Vec::new();
                for a in args.iter() {
                    av.push(self.operand(owner, body, &a.node));
                }
                t.push(("args", J::Arr(av)));
            }
            TerminatorKind::Assert { cond, expected, msg, target, unwind } => {
                t.push(("k", s("assert")));
                t.push(("cond", self.operand(owner, body, cond)));
                t.push(("expected", J::Bool(*expected)));
                let m = format!("{:?}", msg);
                t.push(("msg", s(m.split('(').next().unwrap_or("").trim().to_string())));
                t.push(("msg_full", s(m)));
                t.push(("target", J::Num(target.index() as i128)));
                t.push(("unwind", unwind_j(unwind)));
            }
            TerminatorKind::FalseEdge { real_target, .. } => {
                t.push(("k", s("goto")));
                t.push(("target", J::Num(real_target.index() as i128)));
            }
            TerminatorKind::FalseUnwind { real_target, .. } => {
                t.push(("k", s("goto")));
                t.push(("target", J::Num(real_target.index() as i128)));
            }
            other => {
                t.push(("k", s("other")));
                t.push(("text", s(format!("{:?}", other))));
            }
        }
        t.push(("line", J::Num(line_of(tcx, tspan))));
        t.push(("exp", J::Bool(tspan.from_expansion())));
        if tspan.from_expansion() {
            t.push(("expn", expn_of(tspan)));
        }
        J::Obj(vec![
            ("id", J::Num(id as i128)),
            ("cleanup", J::Bool(bb.is_cleanup)),
            ("stmts", J::Arr(stmts)),
            ("term", J::Obj(t)),
        ])
    }

    fn body(&mut self, did: DefId) -> J {
        let tcx = self.tcx;
        let body: &Body<'tcx> = tcx.optimized_mir(did);
        let mut v: Vec<(&'static str, J)> = Vec::new();
        v.push(("key", s(path(tcx, did))));
        v.push(("kind", s(format!("{:?}", tcx.def_kind(did)))));
        let dspan = tcx.def_span(did);
        v.push(("span", span_loc(tcx, dspan)));
        v.push(("expn", expn_of(dspan)));
        v.push(("arg_count", J::Num(body.arg_count as i128)));
        // parent impl
        let mut owner_item = did;
        while matches!(tcx.def_kind(owner_item), DefKind::Closure | DefKind::InlineConst) {
            owner_item = tcx.parent(owner_item);
        }
        v.push(("owner_fn", s(path(tcx, owner_item))));
        if matches!(tcx.def_kind(owner_item), DefKind::AssocFn) {
            let parent = tcx.parent(owner_item);
            if let DefKind::Impl { of_trait } = tcx.def_kind(parent) {
                let self_ty = tcx.type_of(parent).instantiate_identity().skip_norm_wip();
                let mut iv = vec![("self", s(tys(self_ty))), ("impl_span", span_loc(tcx, tcx.def_span(parent)))];
                if of_trait {
                    let tr = tcx.impl_trait_ref(parent).instantiate_identity().skip_norm_wip();
                    iv.push(("trait", s(path(tcx, tr.def_id))));
                    iv.push(("trait_ref", s(with_no_trimmed_paths!(tr.to_string()))));
                } else {
                    iv.push(("trait", J::Null));
                }
                iv.push(("expn", expn_of(tcx.def_span(parent))));
                v.push(("impl", J::Obj(iv)));
            } else if let DefKind::Trait = tcx.def_kind(parent) {
                v.push(("trait_default_of", s(path(tcx, parent))));
            }
        }
        if matches!(tcx.def_kind(did), DefKind::Fn | DefKind::AssocFn) {
            v.push(("vis", s(format!("{:?}", tcx.visibility(did)))));
            // own (non-parent) generic type parameter names, in order: lets a caller's type
            // arguments be matched to the names used inside this generic body
            let g = tcx.generics_of(did);
            let mut names = Vec::new();
            for p in g.own_params.iter() {
                if let ty::GenericParamDefKind::Type { .. } = p.kind {
                    names.push(s(p.name.to_string()));
                }
            }
            v.push(("generics", J::Arr(names)));
        }
        // locals
        let mut locals = Vec::new();
        for (l, d) in body.local_decls.iter_enumerated() {
            let o = vec![("id", J::Num(l.index() as i128)), ("ty", self.ty_obj(d.ty))];
            locals.push(J::Obj(o));
        }
        v.push(("locals", J::Arr(locals)));
        // debug info
        let mut dbg = Vec::new();
        for vdi in &body.var_debug_info {
            if let VarDebugInfoContents::Place(p) = &vdi.value {
                dbg.push(J::Obj(vec![
                    ("name", s(vdi.name.to_string())),
                    ("p", self.place(body, p)),
                    ("arg", match vdi.argument_index { Some(i) => J::Num(i as i128), None => J::Null }),
                ]));
            }
        }
        v.push(("debug", J::Arr(dbg)));
        let mut blocks = Vec::new();
        for (id, bb) in body.basic_blocks.iter_enumerated() {
            blocks.push(self.block(did, body, id.index(), bb));
        }
        v.push(("blocks", J::Arr(blocks)));
        // promoted constants (e.g. `&"any"` compared against a String): constant operands of each promoted body
        let mut proms = Vec::new();
        if matches!(tcx.def_kind(did), DefKind::Fn | DefKind::AssocFn | DefKind::Closure) {
            if let Some(ldid) = did.as_local() {
                let pm = tcx.promoted_mir(ldid.to_def_id());
                for pbody in pm.iter() {
                    let mut consts = Vec::new();
                    for bb in pbody.basic_blocks.iter() {
                        for st in &bb.statements {
                            if let StatementKind::Assign(b) = &st.kind {
                                let (_, r) = &**b;
                                let mut ops: Vec<&Operand<'tcx>> = Vec::new();
                                match r {
                                    Rvalue::Use(o, _) => ops.push(o),
                                    Rvalue::Aggregate(kind, os) => {
                                        if let AggregateKind::Adt(def, vi, _, _, _) = &**kind {
                                            if os.is_empty() {
                                                let adt = tcx.adt_def(*def);
                                                consts.push(s(format!("{}::{}", path(tcx, *def), adt.variant(*vi).name)));
                                            }
                                        }
                                        for o in os.iter() {
                                            ops.push(o);
                                        }
                                    }
                                    Rvalue::Cast(_, o, _) => ops.push(o),
                                    _ => {}
                                }
                                for o in ops {
                                    if let Operand::Constant(c) = o {
                                        consts.push(s(with_no_trimmed_paths!(format!("{}", c.const_))));
                                    }
                                }
                            }
                        }
                    }
                    proms.push(J::Arr(consts));
                }
            }
        }
        v.push(("promoted", J::Arr(proms)));
        J::Obj(v)
    }

    fn adt(&mut self, did: DefId, queue: &mut VecDeque<DefId>, seen: &mut BTreeSet<DefId>) -> J {
        let tcx = self.tcx;
        let def = tcx.adt_def(did);
        let mut vars = Vec::new();
        for var in def.variants() {
            let mut fields = Vec::new();
            for f in var.fields.iter() {
                let fty = tcx.type_of(f.did).instantiate_identity().skip_norm_wip();
                let mut mentions = Vec::new();
                for arg in fty.walk() {
                    if let Some(t) = arg.as_type() {
                        if let ty::Adt(d2, _) = t.kind() {
                            mentions.push(s(path(tcx, d2.did())));
                            if seen.insert(d2.did()) {
                                queue.push_back(d2.did());
                            }
                        }
                    }
                }
                fields.push(J::Obj(vec![
                    ("name", s(f.name.to_string())),
                    ("ty", s(tys(fty))),
                    ("mentions", J::Arr(mentions)),
                    ("vis", s(format!("{:?}", f.vis))),
                ]));
            }
            vars.push(J::Obj(vec![("name", s(var.name.to_string())), ("fields", J::Arr(fields))]));
        }
        J::Obj(vec![
            ("path", s(path(tcx, did))),
            ("kind", s(if def.is_enum() { "enum" } else if def.is_union() { "union" } else { "struct" })),
            ("non_exhaustive", J::Bool(def.is_variant_list_non_exhaustive())),
            ("variants", J::Arr(vars)),
        ])
    }
}

fn unwind_j(u: &rustc_middle::mir::UnwindAction) -> J {
    match u {
        rustc_middle::mir::UnwindAction::Cleanup(b) => J::Num(b.index() as i128),
        _ => J::Null,
    }
}

fn line_of(tcx: TyCtxt<'_>, sp: Span) -> i128 {
    // line in the *outermost* source (call site of the macro, if any) – diagnostics only
    let sp = sp.source_callsite();
    tcx.sess.source_map().lookup_char_pos(sp.lo()).line as i128
}

fn public_paths<'tcx>(tcx: TyCtxt<'tcx>) -> J {
    // Every path under the local crate root reachable through public module children, with the
    // names of associated items of types and traits (inherent + trait items).
    let mut out: BTreeMap<String, Vec<J>> = BTreeMap::new();
    let mut seen: BTreeSet<(DefId, String)> = BTreeSet::new();
    let mut queue: VecDeque<(DefId, String, usize)> = VecDeque::new();
    let root = LOCAL_CRATE.as_def_id();
    queue.push_back((root, String::new(), 0));
    while let Some((m, prefix, depth)) = queue.pop_front() {
        if depth > 8 {
            continue;
        }
        let children: &[rustc_middle::metadata::ModChild] = if let Some(l) = m.as_local() {
            tcx.module_children_local(l)
        } else {
            tcx.module_children(m)
        };
        for ch in children.iter() {
            if !ch.vis.is_public() {
                continue;
            }
            let name = ch.ident.name.to_string();
            let p = format!("{}::{}", prefix, name);
            let Some(did) = ch.res.opt_def_id() else { continue };
            let kind = tcx.def_kind(did);
            let mut assoc: Vec<J> = Vec::new();
            match kind {
                DefKind::Mod => {
                    if seen.insert((did, p.clone())) {
                        queue.push_back((did, p.clone(), depth + 1));
                    }
                }
                DefKind::Struct | DefKind::Enum | DefKind::Union => {
                    for imp in tcx.inherent_impls(did).iter() {
                        for it in tcx.associated_item_def_ids(*imp) {
                            assoc.push(s(tcx.item_name(*it).to_string()));
                        }
                    }
                    if matches!(kind, DefKind::Enum) {
                        for v in tcx.adt_def(did).variants() {
                            assoc.push(s(v.name.to_string()));
                        }
                    }
                }
                DefKind::Trait => {
                    for it in tcx.associated_item_def_ids(did) {
                        assoc.push(s(tcx.item_name(*it).to_string()));
                    }
                }
                _ => {}
            }
            out.entry(p).or_default().push(J::Obj(vec![
                ("kind", s(format!("{:?}", kind))),
                ("def", s(path(tcx, did))),
                ("assoc", J::Arr(assoc)),
            ]));
        }
    }
    J::Map(out.into_iter().map(|(k, v)| (k, J::Arr(v))).collect())
}

struct Dump;

impl rustc_driver::Callbacks for Dump {
    fn after_analysis<'tcx>(
        &mut self,
        _compiler: &rustc_interface::interface::Compiler,
        tcx: TyCtxt<'tcx>,
    ) -> rustc_driver::Compilation {
        let out_dir = match std::env::var("MIRDUMP_OUT") {
            Ok(d) => d,
            Err(_) => return rustc_driver::Compilation::Continue,
        };
        let crate_name = tcx.crate_name(LOCAL_CRATE).to_string();
        let want = std::env::var("MIRDUMP_CRATES").unwrap_or_default();
        if !want.is_empty() && !want.split(',').any(|c| c == crate_name) {
            // still allow everything that is a workspace member (cargo only wraps those)
        }
        let mut cx = Cx { tcx, adts: BTreeSet::new() };
        let mut bodies = Vec::new();
        for ldid in tcx.mir_keys(()) {
            let did = ldid.to_def_id();
            match tcx.def_kind(did) {
                DefKind::Fn | DefKind::AssocFn | DefKind::Closure => {}
                _ => continue,
            }
            if !tcx.is_mir_available(did) {
                continue;
            }
            bodies.push(cx.body(did));
        }
        // impl table of the local crate
        let mut impls = Vec::new();
        for (tr, list) in tcx.all_local_trait_impls(()).iter() {
            for imp in list {
                let idid = imp.to_def_id();
                let self_ty = tcx.type_of(idid).instantiate_identity().skip_norm_wip();
                cx.note_ty(self_ty);
                let mut items = Vec::new();
                for it in tcx.associated_item_def_ids(idid) {
                    items.push(s(tcx.item_name(*it).to_string()));
                }
                impls.push(J::Obj(vec![
                    ("trait", s(path(tcx, *tr))),
                    ("self", s(tys(self_ty))),
                    ("items", J::Arr(items)),
                    ("span", span_loc(tcx, tcx.def_span(idid))),
                    ("expn", expn_of(tcx.def_span(idid))),
                ]));
            }
        }
        // fn signatures of local fns without MIR interest are in bodies already.
        // ADT closure
        let mut seen: BTreeSet<DefId> = cx.adts.clone();
        let mut queue: VecDeque<DefId> = seen.iter().cloned().collect();
        let mut adts = Vec::new();
        let mut n = 0;
        while let Some(d) = queue.pop_front() {
            n += 1;
            if n > 6000 {
                break;
            }
            // only keep ADTs of crates the rules care about
            let cn = tcx.crate_name(d.krate).to_string();
            if !(cn == "syn" || cn.starts_with("darling") || cn == crate_name || cn == "proc_macro2") {
                continue;
            }
            adts.push(cx.adt(d, &mut queue, &mut seen));
        }
        // cfg / features
        let mut cfgs: Vec<String> = Vec::new();
        for (name, val) in tcx.sess.config.iter() {
            if name.as_str() == "feature" {
                if let Some(v) = val {
                    cfgs.push(v.to_string());
                }
            }
        }
        cfgs.sort();
        let is_test = tcx.sess.is_test_crate();
        let crate_types: Vec<String> = tcx.crate_types().iter().map(|c| format!("{:?}", c)).collect();
        let root_file = tcx
            .sess
            .local_crate_source_file()
            .map(|f| format!("{:?}", f))
            .unwrap_or_default();
        let mut top: Vec<(&'static str, J)> = vec![
            ("crate", s(crate_name.clone())),
            ("features", J::Arr(cfgs.iter().map(|c| s(c.clone())).collect())),
            ("test", J::Bool(is_test)),
            ("crate_types", J::Arr(crate_types.iter().map(|c| s(c.clone())).collect())),
            ("root", s(root_file)),
            ("bodies", J::Arr(bodies)),
            ("impls", J::Arr(impls)),
            ("adts", J::Arr(adts)),
        ];
        if std::env::var("MIRDUMP_PUBLIC").map(|v| v.split(',').any(|c| c == crate_name)).unwrap_or(false) {
            top.push(("public", public_paths(tcx)));
        }
        let mut text = String::new();
        J::Obj(top).write(&mut text);
        // unique file per process
        let stable = tcx.stable_crate_id(LOCAL_CRATE);
        let fname = format!(
            "{}/{}-{:x}-{}.json",
            out_dir,
            crate_name,
            stable.as_u64(),
            std::process::id()
        );
        let tmp = format!("{}.tmp", fname);
        std::fs::write(&tmp, text).expect("mirdump: cannot write facts");
        std::fs::rename(&tmp, &fname).expect("mirdump: cannot rename facts");
        rustc_driver::Compilation::Continue
    }
}

fn main() {
    let mut args: Vec<String> = std::env::args().collect();
    // RUSTC_WORKSPACE_WRAPPER passes the real rustc path as argv[1]
    if args.len() > 1 && (args[1].ends_with("rustc") || args[1].contains("/rustc")) {
        args.remove(1);
    }
    let mut cb = Dump;
    rustc_driver::run_compiler(&args, &mut cb);
}

//! Compile-fail witnesses (rule W), each with a compiling twin that differs only by the offending line.
//! Run by props/witness.py with `cargo +nightly test --doc` (error codes are honoured on nightly only).
#![allow(dead_code)]

// W:C05:c05_use_after_finish
/// ```compile_fail,E0382
/// let mut acc = darling::Error::accumulator();
/// acc.push(darling::Error::custom("x"));
/// let _ = acc.finish();
/// acc.push(darling::Error::custom("late")); // use after finish: the accumulator was moved
/// ```
pub fn c05_use_after_finish() {}

// W:C05:c05_use_after_finish_twin
/// ```
/// let mut acc = darling::Error::accumulator();
/// acc.push(darling::Error::custom("x"));
/// let _ = acc.finish();
/// ```
pub fn c05_use_after_finish_twin() {}

// W:C05:c05_finish_twice
/// ```compile_fail,E0382
/// let acc = darling::Error::accumulator();
/// let _ = acc.finish();
/// let _ = acc.finish_with(1u8); // second consumer
/// ```
pub fn c05_finish_twice() {}

// W:C05:c05_finish_twice_twin
/// ```
/// let acc = darling::Error::accumulator();
/// let _ = acc.finish_with(1u8);
/// ```
pub fn c05_finish_twice_twin() {}

// W:C05:c05_not_clone
/// ```compile_fail,E0599
/// let acc = darling::Error::accumulator();
/// let copy = acc.clone(); // Accumulator must not be Clone
/// let _ = acc.finish();
/// let _ = copy.finish();
/// ```
pub fn c05_not_clone() {}

// W:C05:c05_not_clone_twin
/// ```
/// let acc = darling::Error::accumulator();
/// let _ = acc.finish();
/// ```
pub fn c05_not_clone_twin() {}

// W:C05:c05_into_inner_consumes
/// ```compile_fail,E0382
/// let acc = darling::Error::accumulator();
/// let _errors = acc.into_inner();
/// let _ = acc.finish(); // defused accumulator cannot be finished again
/// ```
pub fn c05_into_inner_consumes() {}

// W:C05:c05_into_inner_consumes_twin
/// ```
/// let acc = darling::Error::accumulator();
/// let _errors = acc.into_inner();
/// ```
pub fn c05_into_inner_consumes_twin() {}

// W:C19:c19_result_borrows_from_query_set
/// ```compile_fail,E0515
/// use darling::usage::{IdentSet, Purpose, UsesTypeParams};
/// fn leak<'a>(ty: &syn::Type) -> darling::usage::IdentRefSet<'a> {
///     let set: IdentSet = IdentSet::default();
///     // the result's elements are &'a Ident borrowed from `set`; a local set cannot satisfy 'a
///     ty.uses_type_params(&Purpose::Declare.into(), &set)
/// }
/// ```
pub fn c19_result_borrows_from_query_set() {}

// W:C19:c19_result_borrows_from_query_set_twin
/// ```
/// use darling::usage::{IdentSet, Purpose, UsesTypeParams};
/// fn ok<'a>(ty: &syn::Type, set: &'a IdentSet) -> darling::usage::IdentRefSet<'a> {
///     ty.uses_type_params(&Purpose::Declare.into(), set)
/// }
/// ```
pub fn c19_result_borrows_from_query_set_twin() {}

// W:C20:c20_with_closure_cannot_capture
/// ```compile_fail,E0308
/// use darling::FromMeta;
/// #[derive(FromMeta)]
/// struct R {
///     // `__errors` is a local of the generated fn: a capturing closure cannot coerce to fn(&Meta) -> Result<_>
///     #[darling(with = |m| { let _ = &__errors; darling::FromMeta::from_meta(m) })]
///     a: String,
/// }
/// ```
pub fn c20_with_closure_cannot_capture() {}

// W:C20:c20_with_closure_cannot_capture_twin
/// ```
/// use darling::FromMeta;
/// #[derive(FromMeta)]
/// struct R {
///     #[darling(with = |m| { darling::FromMeta::from_meta(m) })]
///     a: String,
/// }
/// ```
pub fn c20_with_closure_cannot_capture_twin() {}

// W:C10:c10_flatten_rename_ab
/// ```compile_fail
/// use darling::FromMeta;
/// #[derive(Default, FromMeta)]
/// struct Inner { #[darling(default)] z: u8 }
/// fn f(v: Inner) -> Inner { v }
/// fn g(v: Inner) -> darling::Result<Inner> { Ok(v) }
/// #[derive(FromMeta)]
/// struct R {
///     #[darling(flatten, rename = "x")]
///     inner: Inner,
/// }
/// ```
pub fn c10_flatten_rename_ab() {}

// W:C10:c10_flatten_rename_ab_twin
/// ```
/// use darling::FromMeta;
/// #[derive(Default, FromMeta)]
/// struct Inner { #[darling(default)] z: u8 }
/// fn f(v: Inner) -> Inner { v }
/// fn g(v: Inner) -> darling::Result<Inner> { Ok(v) }
/// #[derive(FromMeta)]
/// struct R {
///     #[darling(flatten)]
///     inner: Inner,
/// }
/// ```
pub fn c10_flatten_rename_ab_twin() {}

// W:C10:c10_flatten_rename_ba
/// ```compile_fail
/// use darling::FromMeta;
/// #[derive(Default, FromMeta)]
/// struct Inner { #[darling(default)] z: u8 }
/// fn f(v: Inner) -> Inner { v }
/// fn g(v: Inner) -> darling::Result<Inner> { Ok(v) }
/// #[derive(FromMeta)]
/// struct R {
///     #[darling(rename = "x", flatten)]
///     inner: Inner,
/// }
/// ```
pub fn c10_flatten_rename_ba() {}

// W:C10:c10_flatten_rename_ba_twin
/// ```
/// use darling::FromMeta;
/// #[derive(Default, FromMeta)]
/// struct Inner { #[darling(default)] z: u8 }
/// fn f(v: Inner) -> Inner { v }
/// fn g(v: Inner) -> darling::Result<Inner> { Ok(v) }
/// #[derive(FromMeta)]
/// struct R {
///     #[darling(flatten)]
///     inner: Inner,
/// }
/// ```
pub fn c10_flatten_rename_ba_twin() {}

// W:C10:c10_flatten_rename_split
/// ```compile_fail
/// use darling::FromMeta;
/// #[derive(Default, FromMeta)]
/// struct Inner { #[darling(default)] z: u8 }
/// fn f(v: Inner) -> Inner { v }
/// fn g(v: Inner) -> darling::Result<Inner> { Ok(v) }
/// #[derive(FromMeta)]
/// struct R {
///     #[darling(flatten)]
///     #[darling(rename = "x")]
///     inner: Inner,
/// }
/// ```
pub fn c10_flatten_rename_split() {}

// W:C10:c10_flatten_rename_split_twin
/// ```
/// use darling::FromMeta;
/// #[derive(Default, FromMeta)]
/// struct Inner { #[darling(default)] z: u8 }
/// fn f(v: Inner) -> Inner { v }
/// fn g(v: Inner) -> darling::Result<Inner> { Ok(v) }
/// #[derive(FromMeta)]
/// struct R {
///     #[darling(flatten)]
///     inner: Inner,
/// }
/// ```
pub fn c10_flatten_rename_split_twin() {}

// W:C10:c10_flatten_with_ab
/// ```compile_fail
/// use darling::FromMeta;
/// #[derive(Default, FromMeta)]
/// struct Inner { #[darling(default)] z: u8 }
/// fn f(v: Inner) -> Inner { v }
/// fn g(v: Inner) -> darling::Result<Inner> { Ok(v) }
/// #[derive(FromMeta)]
/// struct R {
///     #[darling(flatten, with = darling::FromMeta::from_meta)]
///     inner: Inner,
/// }
/// ```
pub fn c10_flatten_with_ab() {}

// W:C10:c10_flatten_with_ab_twin
/// ```
/// use darling::FromMeta;
/// #[derive(Default, FromMeta)]
/// struct Inner { #[darling(default)] z: u8 }
/// fn f(v: Inner) -> Inner { v }
/// fn g(v: Inner) -> darling::Result<Inner> { Ok(v) }
/// #[derive(FromMeta)]
/// struct R {
///     #[darling(flatten)]
///     inner: Inner,
/// }
/// ```
pub fn c10_flatten_with_ab_twin() {}

// W:C10:c10_flatten_with_ba
/// ```compile_fail
/// use darling::FromMeta;
/// #[derive(Default, FromMeta)]
/// struct Inner { #[darling(default)] z: u8 }
/// fn f(v: Inner) -> Inner { v }
/// fn g(v: Inner) -> darling::Result<Inner> { Ok(v) }
/// #[derive(FromMeta)]
/// struct R {
///     #[darling(with = darling::FromMeta::from_meta, flatten)]
///     inner: Inner,
/// }
/// ```
pub fn c10_flatten_with_ba() {}

// W:C10:c10_flatten_with_ba_twin
/// ```
/// use darling::FromMeta;
/// #[derive(Default, FromMeta)]
/// struct Inner { #[darling(default)] z: u8 }
/// fn f(v: Inner) -> Inner { v }
/// fn g(v: Inner) -> darling::Result<Inner> { Ok(v) }
/// #[derive(FromMeta)]
/// struct R {
///     #[darling(flatten)]
///     inner: Inner,
/// }
/// ```
pub fn c10_flatten_with_ba_twin() {}

// W:C10:c10_flatten_with_split
/// ```compile_fail
/// use darling::FromMeta;
/// #[derive(Default, FromMeta)]
/// struct Inner { #[darling(default)] z: u8 }
/// fn f(v: Inner) -> Inner { v }
/// fn g(v: Inner) -> darling::Result<Inner> { Ok(v) }
/// #[derive(FromMeta)]
/// struct R {
///     #[darling(flatten)]
///     #[darling(with = darling::FromMeta::from_meta)]
///     inner: Inner,
/// }
/// ```
pub fn c10_flatten_with_split() {}

// W:C10:c10_flatten_with_split_twin
/// ```
/// use darling::FromMeta;
/// #[derive(Default, FromMeta)]
/// struct Inner { #[darling(default)] z: u8 }
/// fn f(v: Inner) -> Inner { v }
/// fn g(v: Inner) -> darling::Result<Inner> { Ok(v) }
/// #[derive(FromMeta)]
/// struct R {
///     #[darling(flatten)]
///     inner: Inner,
/// }
/// ```
pub fn c10_flatten_with_split_twin() {}

// W:C10:c10_flatten_skip_ab
/// ```compile_fail
/// use darling::FromMeta;
/// #[derive(Default, FromMeta)]
/// struct Inner { #[darling(default)] z: u8 }
/// fn f(v: Inner) -> Inner { v }
/// fn g(v: Inner) -> darling::Result<Inner> { Ok(v) }
/// #[derive(FromMeta)]
/// struct R {
///     #[darling(flatten, skip)]
///     inner: Inner,
/// }
/// ```
pub fn c10_flatten_skip_ab() {}

// W:C10:c10_flatten_skip_ab_twin
/// ```
/// use darling::FromMeta;
/// #[derive(Default, FromMeta)]
/// struct Inner { #[darling(default)] z: u8 }
/// fn f(v: Inner) -> Inner { v }
/// fn g(v: Inner) -> darling::Result<Inner> { Ok(v) }
/// #[derive(FromMeta)]
/// struct R {
///     #[darling(flatten)]
///     inner: Inner,
/// }
/// ```
pub fn c10_flatten_skip_ab_twin() {}

// W:C10:c10_flatten_skip_ba
/// ```compile_fail
/// use darling::FromMeta;
/// #[derive(Default, FromMeta)]
/// struct Inner { #[darling(default)] z: u8 }
/// fn f(v: Inner) -> Inner { v }
/// fn g(v: Inner) -> darling::Result<Inner> { Ok(v) }
/// #[derive(FromMeta)]
/// struct R {
///     #[darling(skip, flatten)]
///     inner: Inner,
/// }
/// ```
pub fn c10_flatten_skip_ba() {}

// W:C10:c10_flatten_skip_ba_twin
/// ```
/// use darling::FromMeta;
/// #[derive(Default, FromMeta)]
/// struct Inner { #[darling(default)] z: u8 }
/// fn f(v: Inner) -> Inner { v }
/// fn g(v: Inner) -> darling::Result<Inner> { Ok(v) }
/// #[derive(FromMeta)]
/// struct R {
///     #[darling(flatten)]
///     inner: Inner,
/// }
/// ```
pub fn c10_flatten_skip_ba_twin() {}

// W:C10:c10_flatten_skip_split
/// ```compile_fail
/// use darling::FromMeta;
/// #[derive(Default, FromMeta)]
/// struct Inner { #[darling(default)] z: u8 }
/// fn f(v: Inner) -> Inner { v }
/// fn g(v: Inner) -> darling::Result<Inner> { Ok(v) }
/// #[derive(FromMeta)]
/// struct R {
///     #[darling(flatten)]
///     #[darling(skip)]
///     inner: Inner,
/// }
/// ```
pub fn c10_flatten_skip_split() {}

// W:C10:c10_flatten_skip_split_twin
/// ```
/// use darling::FromMeta;
/// #[derive(Default, FromMeta)]
/// struct Inner { #[darling(default)] z: u8 }
/// fn f(v: Inner) -> Inner { v }
/// fn g(v: Inner) -> darling::Result<Inner> { Ok(v) }
/// #[derive(FromMeta)]
/// struct R {
///     #[darling(flatten)]
///     inner: Inner,
/// }
/// ```
pub fn c10_flatten_skip_split_twin() {}

// W:C10:c10_flatten_multiple_ab
/// ```compile_fail
/// use darling::FromMeta;
/// #[derive(Default, FromMeta)]
/// struct Inner { #[darling(default)] z: u8 }
/// fn f(v: Inner) -> Inner { v }
/// fn g(v: Inner) -> darling::Result<Inner> { Ok(v) }
/// #[derive(FromMeta)]
/// struct R {
///     #[darling(flatten, multiple)]
///     inner: Inner,
/// }
/// ```
pub fn c10_flatten_multiple_ab() {}

// W:C10:c10_flatten_multiple_ab_twin
/// ```
/// use darling::FromMeta;
/// #[derive(Default, FromMeta)]
/// struct Inner { #[darling(default)] z: u8 }
/// fn f(v: Inner) -> Inner { v }
/// fn g(v: Inner) -> darling::Result<Inner> { Ok(v) }
/// #[derive(FromMeta)]
/// struct R {
///     #[darling(flatten)]
///     inner: Inner,
/// }
/// ```
pub fn c10_flatten_multiple_ab_twin() {}

// W:C10:c10_flatten_multiple_ba
/// ```compile_fail
/// use darling::FromMeta;
/// #[derive(Default, FromMeta)]
/// struct Inner { #[darling(default)] z: u8 }
/// fn f(v: Inner) -> Inner { v }
/// fn g(v: Inner) -> darling::Result<Inner> { Ok(v) }
/// #[derive(FromMeta)]
/// struct R {
///     #[darling(multiple, flatten)]
///     inner: Inner,
/// }
/// ```
pub fn c10_flatten_multiple_ba() {}

// W:C10:c10_flatten_multiple_ba_twin
/// ```
/// use darling::FromMeta;
/// #[derive(Default, FromMeta)]
/// struct Inner { #[darling(default)] z: u8 }
/// fn f(v: Inner) -> Inner { v }
/// fn g(v: Inner) -> darling::Result<Inner> { Ok(v) }
/// #[derive(FromMeta)]
/// struct R {
///     #[darling(flatten)]
///     inner: Inner,
/// }
/// ```
pub fn c10_flatten_multiple_ba_twin() {}

// W:C10:c10_flatten_multiple_split
/// ```compile_fail
/// use darling::FromMeta;
/// #[derive(Default, FromMeta)]
/// struct Inner { #[darling(default)] z: u8 }
/// fn f(v: Inner) -> Inner { v }
/// fn g(v: Inner) -> darling::Result<Inner> { Ok(v) }
/// #[derive(FromMeta)]
/// struct R {
///     #[darling(flatten)]
///     #[darling(multiple)]
///     inner: Inner,
/// }
/// ```
pub fn c10_flatten_multiple_split() {}

// W:C10:c10_flatten_multiple_split_twin
/// ```
/// use darling::FromMeta;
/// #[derive(Default, FromMeta)]
/// struct Inner { #[darling(default)] z: u8 }
/// fn f(v: Inner) -> Inner { v }
/// fn g(v: Inner) -> darling::Result<Inner> { Ok(v) }
/// #[derive(FromMeta)]
/// struct R {
///     #[darling(flatten)]
///     inner: Inner,
/// }
/// ```
pub fn c10_flatten_multiple_split_twin() {}

// W:C10:c10_map_and_then_ab
/// ```compile_fail
/// use darling::FromMeta;
/// #[derive(Default, FromMeta)]
/// struct Inner { #[darling(default)] z: u8 }
/// fn f(v: Inner) -> Inner { v }
/// fn g(v: Inner) -> darling::Result<Inner> { Ok(v) }
/// #[derive(FromMeta)]
/// struct R {
///     #[darling(map = f, and_then = g)]
///     inner: Inner,
/// }
/// ```
pub fn c10_map_and_then_ab() {}

// W:C10:c10_map_and_then_ab_twin
/// ```
/// use darling::FromMeta;
/// #[derive(Default, FromMeta)]
/// struct Inner { #[darling(default)] z: u8 }
/// fn f(v: Inner) -> Inner { v }
/// fn g(v: Inner) -> darling::Result<Inner> { Ok(v) }
/// #[derive(FromMeta)]
/// struct R {
///     #[darling(map = f)]
///     inner: Inner,
/// }
/// ```
pub fn c10_map_and_then_ab_twin() {}

// W:C10:c10_map_and_then_ba
/// ```compile_fail
/// use darling::FromMeta;
/// #[derive(Default, FromMeta)]
/// struct Inner { #[darling(default)] z: u8 }
/// fn f(v: Inner) -> Inner { v }
/// fn g(v: Inner) -> darling::Result<Inner> { Ok(v) }
/// #[derive(FromMeta)]
/// struct R {
///     #[darling(and_then = g, map = f)]
///     inner: Inner,
/// }
/// ```
pub fn c10_map_and_then_ba() {}

// W:C10:c10_map_and_then_ba_twin
/// ```
/// use darling::FromMeta;
/// #[derive(Default, FromMeta)]
/// struct Inner { #[darling(default)] z: u8 }
/// fn f(v: Inner) -> Inner { v }
/// fn g(v: Inner) -> darling::Result<Inner> { Ok(v) }
/// #[derive(FromMeta)]
/// struct R {
///     #[darling(map = f)]
///     inner: Inner,
/// }
/// ```
pub fn c10_map_and_then_ba_twin() {}

// W:C10:c10_map_and_then_split
/// ```compile_fail
/// use darling::FromMeta;
/// #[derive(Default, FromMeta)]
/// struct Inner { #[darling(default)] z: u8 }
/// fn f(v: Inner) -> Inner { v }
/// fn g(v: Inner) -> darling::Result<Inner> { Ok(v) }
/// #[derive(FromMeta)]
/// struct R {
///     #[darling(map = f)]
///     #[darling(and_then = g)]
///     inner: Inner,
/// }
/// ```
pub fn c10_map_and_then_split() {}

// W:C10:c10_map_and_then_split_twin
/// ```
/// use darling::FromMeta;
/// #[derive(Default, FromMeta)]
/// struct Inner { #[darling(default)] z: u8 }
/// fn f(v: Inner) -> Inner { v }
/// fn g(v: Inner) -> darling::Result<Inner> { Ok(v) }
/// #[derive(FromMeta)]
/// struct R {
///     #[darling(map = f)]
///     inner: Inner,
/// }
/// ```
pub fn c10_map_and_then_split_twin() {}

// W:C10:c10_dup_rename_ab
/// ```compile_fail
/// use darling::FromMeta;
/// #[derive(Default, FromMeta)]
/// struct Inner { #[darling(default)] z: u8 }
/// fn f(v: Inner) -> Inner { v }
/// fn g(v: Inner) -> darling::Result<Inner> { Ok(v) }
/// #[derive(FromMeta)]
/// struct R {
///     #[darling(rename = "a", rename = "b")]
///     inner: Inner,
/// }
/// ```
pub fn c10_dup_rename_ab() {}

// W:C10:c10_dup_rename_ab_twin
/// ```
/// use darling::FromMeta;
/// #[derive(Default, FromMeta)]
/// struct Inner { #[darling(default)] z: u8 }
/// fn f(v: Inner) -> Inner { v }
/// fn g(v: Inner) -> darling::Result<Inner> { Ok(v) }
/// #[derive(FromMeta)]
/// struct R {
///     #[darling(rename = "a")]
///     inner: Inner,
/// }
/// ```
pub fn c10_dup_rename_ab_twin() {}

// W:C10:c10_dup_rename_ba
/// ```compile_fail
/// use darling::FromMeta;
/// #[derive(Default, FromMeta)]
/// struct Inner { #[darling(default)] z: u8 }
/// fn f(v: Inner) -> Inner { v }
/// fn g(v: Inner) -> darling::Result<Inner> { Ok(v) }
/// #[derive(FromMeta)]
/// struct R {
///     #[darling(rename = "b", rename = "a")]
///     inner: Inner,
/// }
/// ```
pub fn c10_dup_rename_ba() {}

// W:C10:c10_dup_rename_ba_twin
/// ```
/// use darling::FromMeta;
/// #[derive(Default, FromMeta)]
/// struct Inner { #[darling(default)] z: u8 }
/// fn f(v: Inner) -> Inner { v }
/// fn g(v: Inner) -> darling::Result<Inner> { Ok(v) }
/// #[derive(FromMeta)]
/// struct R {
///     #[darling(rename = "a")]
///     inner: Inner,
/// }
/// ```
pub fn c10_dup_rename_ba_twin() {}

// W:C10:c10_dup_rename_split
/// ```compile_fail
/// use darling::FromMeta;
/// #[derive(Default, FromMeta)]
/// struct Inner { #[darling(default)] z: u8 }
/// fn f(v: Inner) -> Inner { v }
/// fn g(v: Inner) -> darling::Result<Inner> { Ok(v) }
/// #[derive(FromMeta)]
/// struct R {
///     #[darling(rename = "a")]
///     #[darling(rename = "b")]
///     inner: Inner,
/// }
/// ```
pub fn c10_dup_rename_split() {}

// W:C10:c10_dup_rename_split_twin
/// ```
/// use darling::FromMeta;
/// #[derive(Default, FromMeta)]
/// struct Inner { #[darling(default)] z: u8 }
/// fn f(v: Inner) -> Inner { v }
/// fn g(v: Inner) -> darling::Result<Inner> { Ok(v) }
/// #[derive(FromMeta)]
/// struct R {
///     #[darling(rename = "a")]
///     inner: Inner,
/// }
/// ```
pub fn c10_dup_rename_split_twin() {}

// W:C10:c10_dup_default_ab
/// ```compile_fail
/// use darling::FromMeta;
/// #[derive(Default, FromMeta)]
/// struct Inner { #[darling(default)] z: u8 }
/// fn f(v: Inner) -> Inner { v }
/// fn g(v: Inner) -> darling::Result<Inner> { Ok(v) }
/// #[derive(FromMeta)]
/// struct R {
///     #[darling(default, default)]
///     inner: Inner,
/// }
/// ```
pub fn c10_dup_default_ab() {}

// W:C10:c10_dup_default_ab_twin
/// ```
/// use darling::FromMeta;
/// #[derive(Default, FromMeta)]
/// struct Inner { #[darling(default)] z: u8 }
/// fn f(v: Inner) -> Inner { v }
/// fn g(v: Inner) -> darling::Result<Inner> { Ok(v) }
/// #[derive(FromMeta)]
/// struct R {
///     #[darling(default)]
///     inner: Inner,
/// }
/// ```
pub fn c10_dup_default_ab_twin() {}

// W:C10:c10_dup_default_ba
/// ```compile_fail
/// use darling::FromMeta;
/// #[derive(Default, FromMeta)]
/// struct Inner { #[darling(default)] z: u8 }
/// fn f(v: Inner) -> Inner { v }
/// fn g(v: Inner) -> darling::Result<Inner> { Ok(v) }
/// #[derive(FromMeta)]
/// struct R {
///     #[darling(default, default)]
///     inner: Inner,
/// }
/// ```
pub fn c10_dup_default_ba() {}

// W:C10:c10_dup_default_ba_twin
/// ```
/// use darling::FromMeta;
/// #[derive(Default, FromMeta)]
/// struct Inner { #[darling(default)] z: u8 }
/// fn f(v: Inner) -> Inner { v }
/// fn g(v: Inner) -> darling::Result<Inner> { Ok(v) }
/// #[derive(FromMeta)]
/// struct R {
///     #[darling(default)]
///     inner: Inner,
/// }
/// ```
pub fn c10_dup_default_ba_twin() {}

// W:C10:c10_dup_default_split
/// ```compile_fail
/// use darling::FromMeta;
/// #[derive(Default, FromMeta)]
/// struct Inner { #[darling(default)] z: u8 }
/// fn f(v: Inner) -> Inner { v }
/// fn g(v: Inner) -> darling::Result<Inner> { Ok(v) }
/// #[derive(FromMeta)]
/// struct R {
///     #[darling(default)]
///     #[darling(default)]
///     inner: Inner,
/// }
/// ```
pub fn c10_dup_default_split() {}

// W:C10:c10_dup_default_split_twin
/// ```
/// use darling::FromMeta;
/// #[derive(Default, FromMeta)]
/// struct Inner { #[darling(default)] z: u8 }
/// fn f(v: Inner) -> Inner { v }
/// fn g(v: Inner) -> darling::Result<Inner> { Ok(v) }
/// #[derive(FromMeta)]
/// struct R {
///     #[darling(default)]
///     inner: Inner,
/// }
/// ```
pub fn c10_dup_default_split_twin() {}

// W:C10:c10_unknown_option_ab
/// ```compile_fail
/// use darling::FromMeta;
/// #[derive(Default, FromMeta)]
/// struct Inner { #[darling(default)] z: u8 }
/// fn f(v: Inner) -> Inner { v }
/// fn g(v: Inner) -> darling::Result<Inner> { Ok(v) }
/// #[derive(FromMeta)]
/// struct R {
///     #[darling(frobnicate)]
///     inner: Inner,
/// }
/// ```
pub fn c10_unknown_option_ab() {}

// W:C10:c10_unknown_option_ab_twin
/// ```
/// use darling::FromMeta;
/// #[derive(Default, FromMeta)]
/// struct Inner { #[darling(default)] z: u8 }
/// fn f(v: Inner) -> Inner { v }
/// fn g(v: Inner) -> darling::Result<Inner> { Ok(v) }
/// #[derive(FromMeta)]
/// struct R {
///     #[darling(default)]
///     inner: Inner,
/// }
/// ```
pub fn c10_unknown_option_ab_twin() {}

// W:C10:c10_unknown_option_ba
/// ```compile_fail
/// use darling::FromMeta;
/// #[derive(Default, FromMeta)]
/// struct Inner { #[darling(default)] z: u8 }
/// fn f(v: Inner) -> Inner { v }
/// fn g(v: Inner) -> darling::Result<Inner> { Ok(v) }
/// #[derive(FromMeta)]
/// struct R {
///     #[darling(default, frobnicate)]
///     inner: Inner,
/// }
/// ```
pub fn c10_unknown_option_ba() {}

// W:C10:c10_unknown_option_ba_twin
/// ```
/// use darling::FromMeta;
/// #[derive(Default, FromMeta)]
/// struct Inner { #[darling(default)] z: u8 }
/// fn f(v: Inner) -> Inner { v }
/// fn g(v: Inner) -> darling::Result<Inner> { Ok(v) }
/// #[derive(FromMeta)]
/// struct R {
///     #[darling(default)]
///     inner: Inner,
/// }
/// ```
pub fn c10_unknown_option_ba_twin() {}

// W:C10:c10_unknown_option_split
/// ```compile_fail
/// use darling::FromMeta;
/// #[derive(Default, FromMeta)]
/// struct Inner { #[darling(default)] z: u8 }
/// fn f(v: Inner) -> Inner { v }
/// fn g(v: Inner) -> darling::Result<Inner> { Ok(v) }
/// #[derive(FromMeta)]
/// struct R {
///     #[darling(frobnicate)]
///     inner: Inner,
/// }
/// ```
pub fn c10_unknown_option_split() {}

// W:C10:c10_unknown_option_split_twin
/// ```
/// use darling::FromMeta;
/// #[derive(Default, FromMeta)]
/// struct Inner { #[darling(default)] z: u8 }
/// fn f(v: Inner) -> Inner { v }
/// fn g(v: Inner) -> darling::Result<Inner> { Ok(v) }
/// #[derive(FromMeta)]
/// struct R {
///     #[darling(default)]
///     inner: Inner,
/// }
/// ```
pub fn c10_unknown_option_split_twin() {}

// W:C10:c10_two_flatten
/// ```compile_fail
/// use darling::FromMeta;
/// #[derive(Default, FromMeta)]
/// struct I { #[darling(default)] z: u8 }
/// #[derive(FromMeta)]
/// struct R { #[darling(flatten)] a: I, #[darling(flatten)] b: I }
/// ```
pub fn c10_two_flatten() {}

// W:C10:c10_two_flatten_twin
/// ```
/// use darling::FromMeta;
/// #[derive(Default, FromMeta)]
/// struct I { #[darling(default)] z: u8 }
/// #[derive(FromMeta)]
/// struct R { #[darling(flatten)] a: I, #[darling(default)] b: I }
/// ```
pub fn c10_two_flatten_twin() {}

// W:C10:c10_two_word
/// ```compile_fail
/// use darling::FromMeta;
/// #[derive(FromMeta)]
/// enum E { #[darling(word)] A, #[darling(word)] B }
/// ```
pub fn c10_two_word() {}

// W:C10:c10_two_word_twin
/// ```
/// use darling::FromMeta;
/// #[derive(FromMeta)]
/// enum E { #[darling(word)] A, B }
/// ```
pub fn c10_two_word_twin() {}

// W:C10:c10_word_non_unit
/// ```compile_fail
/// use darling::FromMeta;
/// #[derive(FromMeta)]
/// enum E { #[darling(word)] A(u8), B }
/// ```
pub fn c10_word_non_unit() {}

// W:C10:c10_word_non_unit_twin
/// ```
/// use darling::FromMeta;
/// #[derive(FromMeta)]
/// enum E { A(u8), #[darling(word)] B }
/// ```
pub fn c10_word_non_unit_twin() {}

// W:C10:c10_word_and_from_word
/// ```compile_fail
/// use darling::FromMeta;
/// #[derive(FromMeta)]
/// #[darling(from_word = || Ok(E::B))]
/// enum E { #[darling(word)] A, B }
/// ```
pub fn c10_word_and_from_word() {}

// W:C10:c10_word_and_from_word_twin
/// ```
/// use darling::FromMeta;
/// #[derive(FromMeta)]
/// #[darling(from_word = || Ok(E::B))]
/// enum E { A, B }
/// ```
pub fn c10_word_and_from_word_twin() {}

// W:C10:c10_from_word_unit_struct
/// ```compile_fail
/// use darling::FromMeta;
/// #[derive(FromMeta)]
/// #[darling(from_word = || Ok(U))]
/// struct U;
/// ```
pub fn c10_from_word_unit_struct() {}

// W:C10:c10_from_word_unit_struct_twin
/// ```
/// use darling::FromMeta;
/// #[derive(FromMeta)]
/// struct U;
/// ```
pub fn c10_from_word_unit_struct_twin() {}

// W:C10:c10_from_word_newtype
/// ```compile_fail
/// use darling::FromMeta;
/// #[derive(FromMeta)]
/// #[darling(from_word = || Ok(N(1)))]
/// struct N(u8);
/// ```
pub fn c10_from_word_newtype() {}

// W:C10:c10_from_word_newtype_twin
/// ```
/// use darling::FromMeta;
/// #[derive(FromMeta)]
/// struct N(u8);
/// ```
pub fn c10_from_word_newtype_twin() {}

// W:C10:c10_attrs_without_forward
/// ```compile_fail
/// use darling::FromDeriveInput;
/// #[derive(FromDeriveInput)]
/// #[darling(attributes(x))]
/// struct R { attrs: Vec<syn::Attribute> }
/// ```
pub fn c10_attrs_without_forward() {}

// W:C10:c10_attrs_without_forward_twin
/// ```
/// use darling::FromDeriveInput;
/// #[derive(FromDeriveInput)]
/// #[darling(attributes(x), forward_attrs)]
/// struct R { attrs: Vec<syn::Attribute> }
/// ```
pub fn c10_attrs_without_forward_twin() {}

// W:C10:c10_from_attributes_without_names
/// ```compile_fail
/// use darling::FromAttributes;
/// #[derive(FromAttributes)]
/// struct R { #[darling(default)] a: u8 }
/// ```
pub fn c10_from_attributes_without_names() {}

// W:C10:c10_from_attributes_without_names_twin
/// ```
/// use darling::FromAttributes;
/// #[derive(FromAttributes)]
/// #[darling(attributes(x))]
/// struct R { #[darling(default)] a: u8 }
/// ```
pub fn c10_from_attributes_without_names_twin() {}

// W:C10:c10_unknown_shape_word
/// ```compile_fail
/// use darling::FromDeriveInput;
/// #[derive(FromDeriveInput)]
/// #[darling(supports(struct_weird))]
/// struct R { ident: syn::Ident }
/// ```
pub fn c10_unknown_shape_word() {}

// W:C10:c10_unknown_shape_word_twin
/// ```
/// use darling::FromDeriveInput;
/// #[derive(FromDeriveInput)]
/// #[darling(supports(struct_named))]
/// struct R { ident: syn::Ident }
/// ```
pub fn c10_unknown_shape_word_twin() {}

// W:C10:c10_union_receiver
/// ```compile_fail
/// use darling::FromMeta;
/// #[derive(FromMeta)]
/// union U { a: u8 }
/// ```
pub fn c10_union_receiver() {}

// W:C10:c10_union_receiver_twin
/// ```
/// use darling::FromMeta;
/// #[derive(FromMeta)]
/// struct U { a: u8 }
/// ```
pub fn c10_union_receiver_twin() {}

// W:C10:c10_enum_for_element_trait
/// ```compile_fail
/// use darling::FromField;
/// #[derive(FromField)]
/// enum E { A }
/// ```
pub fn c10_enum_for_element_trait() {}

// W:C10:c10_enum_for_element_trait_twin
/// ```
/// use darling::FromField;
/// #[derive(FromField)]
/// struct E { ident: Option<syn::Ident> }
/// ```
pub fn c10_enum_for_element_trait_twin() {}

// W:C10:c10_container_map_and_then
/// ```compile_fail
/// use darling::FromMeta;
/// #[derive(FromMeta)]
/// #[darling(map = R::f, and_then = R::g)]
/// struct R { a: u8 }
/// impl R { fn f(self) -> Self { self } fn g(self) -> darling::Result<Self> { Ok(self) } }
/// ```
pub fn c10_container_map_and_then() {}

// W:C10:c10_container_map_and_then_twin
/// ```
/// use darling::FromMeta;
/// #[derive(FromMeta)]
/// #[darling(map = R::f)]
/// struct R { a: u8 }
/// impl R { fn f(self) -> Self { self } }
/// ```
pub fn c10_container_map_and_then_twin() {}

// W:C10:c10_variant_dup_skip
/// ```compile_fail
/// use darling::FromMeta;
/// #[derive(FromMeta)]
/// enum E { #[darling(skip, skip)] A, B }
/// ```
pub fn c10_variant_dup_skip() {}

// W:C10:c10_variant_dup_skip_twin
/// ```
/// use darling::FromMeta;
/// #[derive(FromMeta)]
/// enum E { #[darling(skip)] A, B }
/// ```
pub fn c10_variant_dup_skip_twin() {}

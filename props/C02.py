"""C02 – every mistake in the input is reported, exactly once, in a single pass.

Decided clauses: accumulator typestate and error discipline everywhere (T, D); the no-double-
report guards and the single exit of every fn-body template [A,H] and of every derived fn [B];
per-item / per-attribute continuation; the body layer (Data/Fields::try_from); bundling keeps the
vector.  Not decided: the one-to-one correspondence itself (a counting statement over inputs);
errors raised inside user-supplied callables."""
import re

from vlib import resalg, mir, scan, tpl, derived
from . import common

META = dict(
    level="structural necessary conditions of exactly-once reporting, decided on all paths of the generator, its templates, the library and every derived fn of the population",
    technique="static analysis: typestate via drop elaboration, path-condition guards, template order rules, dominance (must-pass-through) on derived MIR",
)

FN_BODY_TEMPLATES = [
    common.TOK % "from_meta_impl::FromMetaImpl<'_>",
    common.TOK % "from_attributes_impl::FromAttributesImpl<'_>",
    common.TOK % "from_derive_impl::FromDeriveInputImpl<'_>",
    common.TOK % "from_field::FromFieldImpl<'_>",
    common.TOK % "from_type_param::FromTypeParamImpl<'_>",
    common.TOK % "from_variant_impl::FromVariantImpl<'_>",
    common.TOK % "variant::DataMatchArm<'_>",
]

ORDER = ["declare", "walk", "require", "check", "construct"]


def classify(tk):
    """Component of a fn-body template an interpolation / token belongs to."""
    if tk.kind == "interp":
        e = (tk.expr or "") + " " + (tk.ty or "")
        if "declare_errors" in e or "ErrorDeclaration" in e:
            return "declare"
        if "::extractor(" in e or "::core_loop(" in e:
            return "walk"
        if "require_fields(" in e:
            return "require"
        if "check_errors(" in e or "ErrorCheck" in e:
            return "check"
        if "initializers(" in e or "field::Initializer" in e:
            return "construct"
    return None


def run(ctx):
    core = ctx.core("on")
    nontest = [b for b in ctx.all_bodies(core) if not scan.is_test_body(b) and not b.derived]

    # ------------------------------------------------------------ T / D [A]
    runtime = [b for b in nontest if not common.derive_file(b)]
    n = common.acc_typestate(ctx, "C02.T.no-live-drop", runtime)
    ctx.floor("C02.T", "run-time library functions holding an accumulator", n, 10)
    common.error_discipline(ctx, "C02.D", runtime)

    # ------------------------------------------------------------ templates [A,H]
    for key in FN_BODY_TEMPLATES:
        f = ctx.fn(key)
        if not f:
            continue
        found = 0
        # the generator and the private helpers it may have been cut into (one per arm kind, say)
        for T, s in [(T_, s_) for g_ in ctx.generator_group(f) for T_ in [tpl.Templates(g_)] for s_ in T_.root_streams()]:
            toks = T.stream_tokens(s, locals_too=True)
            comps = [(classify(tk), tk) for tk in toks]
            seq = [c for c, tk in comps if c]
            if "declare" not in seq:
                continue
            found += 1
            # order: each component's first occurrence follows the previous one's last
            pos = {c: [i for i, x in enumerate(seq) if x == c] for c in ORDER}
            ok = all(pos[c] for c in ORDER)
            detail = "components in order of emission: %s" % seq
            if ok:
                for a, b2 in zip(ORDER, ORDER[1:]):
                    if max(pos[a]) > min(pos[b2]):
                        ok = False
            ctx.ob("C02.H.single-exit-order", f.key, "fn-body template (stream _%s)" % s, ok,
                   "required order declare → walk → presence checks → finish()? → construction; " + detail)
            # no early exit between the accumulator declaration and its finish
            i_decl = next(i for i, (c, tk) in enumerate(comps) if c == "declare")
            i_chk = max([i for i, (c, tk) in enumerate(comps) if c == "check"] or [i_decl])
            between = [tk for c, tk in comps[i_decl + 1:i_chk] if tk.kind in ("ident", "punct") and tk.text in ("return", "break", "?")]
            # `?` inside the parse of the variant's own list happens before the declaration; anything else is an early exit
            ctx.ob("C02.H.no-early-exit", f.key, "tokens between declaration and finish (stream _%s)" % s, not between,
                   "early-exit tokens inside the accumulation region: %s" % [t.text for t in between])
        ctx.ob("C02.H.fn-body-found", f.key, "fn-body template with an accumulator", found >= 1, "%d fn-body templates recognised" % found)
    # "required item absent" is a mistake: a field gets a synthesised default only under the documented
    # conditions, so that every other field without a default keeps its presence check
    from .C01 import default_synthesis_rules
    default_synthesis_rules(ctx, "C02.req")
    # ErrorCheck = finish() [map_err] ?
    f = ctx.fn(common.TOK % "error::ErrorCheck<'_>")
    if f:
        T = tpl.Templates(f)
        txt = " | ".join(T.text(s) for s in T.root_streams())
        ctx.ob("C02.H.error-check", f.key, "__errors.finish() … ?", bool(re.search(r"__errors \. finish \( \) .*\?", txt)) and "return" not in txt, txt[:300])
    f = ctx.fn(common.TOK % "error::ErrorDeclaration")
    if f:
        T = tpl.Templates(f)
        txt = " | ".join(T.text(s) for s in T.root_streams())
        ctx.ob("C02.H.error-declaration", f.key, "let mut __errors = accumulator()", "let mut __errors = :: darling :: Error :: accumulator ( ) ;" in txt, txt[:300])
    # MatchArm: extractor and duplicate push on opposite edges of the seen flag
    f = ctx.fn(common.TOK % "field::MatchArm<'_>")
    if f:
        T = tpl.Templates(f)
        toks_ = T.render(T.root_streams()[-1]) if T.root_streams() else []
        txt = " ".join(toks_)
        # every arm the generator can emit (a shared `#name => { #body }` wrapper around per-kind bodies
        # and the original two full templates render to the same alternatives); the seen-flag test may
        # be written in either orientation
        variants_ = [" ".join(x) for x in tpl.expand_alts(toks_)]
        S1 = r"=> \{ if ! ⟨proc_macro2::Ident⟩ \. 0 \{ ⟨proc_macro2::Ident⟩ = \( true , __errors \. handle \( .*? \) \) ; \} else \{ __errors \. push \( :: darling :: Error :: duplicate_field \("
        S2 = r"=> \{ if ⟨proc_macro2::Ident⟩ \. 0 \{ __errors \. push \( :: darling :: Error :: duplicate_field \( .*? \} else \{ ⟨proc_macro2::Ident⟩ = \( true , __errors \. handle \("
        M1 = r"=> \{ let __len = ⟨proc_macro2::Ident⟩ \. len \( \) ; if let :: darling :: export :: Some \( __val \) = __errors \. handle \( .*? \) \{ ⟨proc_macro2::Ident⟩ \. push \( __val \)(?: ;)? \} \}"
        single = any(re.search(S1, x) or re.search(S2, x) for x in variants_)
        multi = any(re.search(M1, x) for x in variants_)
        ctx.ob("C02.H.duplicate-vs-extract", f.key, "single-value arm", bool(single), "template: %s" % txt[:600])
        ctx.ob("C02.H.multiple-handle", f.key, "multiple arm", bool(multi), "template: %s" % txt[:600])
        ctx.ob("C02.H.arm-no-exit", f.key, "no early exit in match arm", not re.search(r"\breturn\b|\bbreak\b| \? ", txt), "template must not leave the item loop")
    # core_loop: literal and unknown items push and continue
    f = ctx.fn("darling_core::codegen::variant_data::FieldsGen::<'a>::core_loop")
    if f:
        T = tpl.Templates(f)
        roots = T.root_streams()
        txt = " ".join(T.render(roots[-1])) if roots else ""
        ok_lit = bool(re.search(r"NestedMeta :: Lit \( ref __inner \) => \{ __errors \. push \( :: darling :: Error :: unsupported_format \( \"literal\" \) \. with_span \( __inner \) \) ; \}", txt))
        ctx.ob("C02.H.literal-item-pushed", f.key, "literal arm", ok_lit, "template: %s" % txt[:700])
        ctx.ob("C02.H.loop-no-exit", f.key, "no early exit in item loop", not re.search(r"\breturn\b|\bbreak\b| \? ", txt), "template: %s" % txt[:300])
        for tk in T.all_tokens(("ident",)):
            if tk.text in ("unknown_field", "unknown_field_with_alts"):
                ctx.requires("C02.G.unknown-pushed", f, tk.blk, "unknown-field error", [r"allow_unknown_fields=False"])
    # extractor: both Err arms push, nothing returns
    f = ctx.fn("darling_core::codegen::attr_extractor::ExtractAttribute::extractor")
    if f:
        T = tpl.Templates(f)
        txts = [" ".join(T.render(s)) for s in T.root_streams()]
        big = max(txts, key=len) if txts else ""
        n_push = len(re.findall(r":: darling :: export :: Err \( __err \) => \{ __errors \. push \( __err", big))
        # (two nested matches with an Err arm each, or one match over `first(..).and_then(|__data| second(..).map_err(Error::from))`)
        chained = n_push == 1 and re.search(r"match [^{]*parse_attribute_to_meta_list \( [^{]* \) \. and_then \( \| __data \| \{? ?[^{]*parse_meta_list \( [^{]* \) \. map_err \( :: darling :: Error :: from \) \}? ?\) \{", big) is not None
        ctx.ob("C02.H.attr-errors-pushed", f.key, "Err arms of the attribute parse", n_push == 2 or chained, "%d Err arms push into __errors (need 2): %s" % (n_push, big[:200]))
        ctx.ob("C02.H.attr-loop-no-exit", f.key, "no early exit in attribute loop", not re.search(r"\breturn\b|\bbreak\b| \? ", big), "template must not leave the attribute loop early")

    # ------------------------------------------------------------ body layer [A]
    f = ctx.fn("darling_core::ast::data::Data::<V, F>::try_from")
    if f:
        fw = ctx.find_calls(f, r"Accumulator::finish_with")
        ctx.ob("C02.P.body-enum-finish", f.key, "finish_with", len(fw) == 1, "%d finish_with calls" % len(fw))
        for blk, t in fw:
            ctx.requires("C02.P.body-enum-finish", f, blk, "finish_with", [r"discr\(a1\)=Enum"])
        hs = [h for h in ctx.per_element(f, r"Accumulator::handle$") if re.search(r"FromVariant(>)?::from_variant\(", ctx.expr(h["owner"], h["t"]["args"][1]))]
        ok = len(hs) == 1 and hs[0]["form"] in ("adapter", "loop") and "(a1 as Enum).0.variants" in hs[0]["source"]
        if not hs:
            # `match from_variant(v) { Ok(x) => items.push(x), Err(e) => errors.push(e) }` per variant
            ps = [h for h in ctx.per_element(f, r"Accumulator::push$") if re.search(r"^\(.*FromVariant(>)?::from_variant\(.*\) as Err\)\.0$", ctx.expr(h["owner"], h["t"]["args"][1]))]
            ok = len(ps) == 1 and ps[0]["form"] in ("adapter", "loop") and "(a1 as Enum).0.variants" in ps[0]["source"]
            hs = ps
        ctx.ob("C02.P.body-enum-handle", f.key, "handle(from_variant(v)) per variant", ok, "per-variant handles: %s" % [(h["form"], h["source"][:100]) for h in hs])
    f = ctx.fn("darling_core::ast::data::Fields::<F>::try_from")
    if f:
        fin = ctx.find_calls(f, r"Accumulator::finish(_with)?$")
        cs = resalg.cases(ctx, f)
        okrows = [(c, v) for c, v in cs if v.startswith("core::result::Result::Ok{")]
        other = [(c, v) for c, v in cs if not v.startswith("core::result::Result::Ok{")]
        ok = len(fin) == 1 and bool(okrows) and all(any(re.match(r"^is_ok\(.*Accumulator::finish\(.*\)\)=True$", a) for a in c) for c, v in okrows) \
            and all(re.match(r"^core::result::Result::Err\{\(.*Accumulator::finish\(.*\) as Err\)\.0\}$", v) for c, v in other)
        ctx.ob("C02.P.body-fields-finish", f.key, "finish()? before Ok", ok, "finish calls %d, Ok rows %d, other rows %s" % (len(fin), len(okrows), [v[:100] for c, v in other]))
        conv = {id(h["t"]) for h in ctx.per_element(f, r"FromField(>)?::from_field$", helpers=1)}
        viahelp = [h["via"].key for h in ctx.per_element(f, r"FromField(>)?::from_field$", helpers=1) if h.get("via")]
        handles = []
        for h in ctx.per_element(f, r"Accumulator::handle$"):
            e = ctx.expr(h["owner"], h["t"]["args"][1])
            if h["form"] in ("adapter", "loop") and (re.search(r"FromField(>)?::from_field\(", e) or any(k + "(" in e for k in viahelp)):
                handles.append(re.sub(r".*iter\(", "iter(", h["source"]))
        ctx.ob("C02.P.body-fields-handle", f.key, "handle(from_field(f)) per field (named and unnamed)", sorted(handles) == ["iter((a1 as Named).0.named)", "iter((a1 as Unnamed).0.unnamed)"], "field conversions handled per element of: %s" % handles)
    for key in ("darling_core::options::ParseData::parse_body", "darling_core::options::ParseAttribute::parse_attributes"):
        f = ctx.fn(key)
        if f:
            fw = ctx.find_calls(f, r"Accumulator::finish_with")
            hs = [h for h in ctx.per_element(f, r"Accumulator::handle$") if h["form"] in ("adapter", "loop")]
            rets = ctx.ret_exprs(f)
            ctx.ob("C02.P.options-walk", f.key, "handle per item, finish_with(self) at the end", len(fw) == 1 and len(hs) >= 1 and len(rets) == 1 and "finish_with" in rets[0][1], "%d handle, %d finish_with, returns %s" % (len(hs), len(fw), [e[:60] for _, e in rets]))
    # maps: a key is remembered on every path after a successful key conversion (shared with C14)
    from .C14 import MAPS, FM as _FM
    for ty, key, kind in MAPS:
        f = ctx.fn("<%s as %s>::from_list" % (ty, _FM))
        if not f:
            continue
        # "each names ... its outer-to-inner location path": a map value's error names its key on every
        # path on which it is recorded (rule shared with C14)
        from .C14 import located_rule
        located_rule(ctx, "C02.loc.map-value-under-key", f, ctx.find_calls_deep(f, r"FromMeta>::from_meta$|FromMeta::from_meta$", helpers=2))
        seen_ins = ctx.find_calls(f, r"HashSet::<.*>::insert$")
        contains = ctx.find_calls(f, r"HashSet::<.*>::contains")
        nexts = [b2 for b2, t2 in ctx.find_calls(f, r"Iterator>::next$")]
        fw = ctx.find_calls(f, r"Accumulator::finish_with$")
        ok = len(seen_ins) == 1 and len(contains) <= 1
        if ok and contains:
            reach = f.reachable(contains[0][0], False, avoid={seen_ins[0][0]})
            ok = not any(n in reach for n in nexts) and not any(b2 in reach for b2, _ in fw)
        elif ok:
            # `seen_keys.insert(key)` is itself the test: it must not stand behind a test of the value
            ok = all(not any(re.search(r"\.1\)?=|from_meta\(", a_) and "from_path(" not in a_ for a_ in d) for d in ctx.pc_strs(f, seen_ins[0][0]))
        ctx.ob("C02.P.map-key-remembered", f.key, "seen-set separate from the result map, updated on every path", ok,
               "a repeated key must be reported even when its earlier occurrence had a rejected value: the key has to be recorded in a seen-set on every path, not only when the value was inserted")
    # the flatten hand-off re-visits every error of the bundle it gets back: none is filtered away
    g = ctx.fn("darling_core::error::Error::add_sibling_alts_for_unknown_field")
    if g:
        rec = ctx.per_element(g, r"^darling_core::error::Error::add_sibling_alts_for_unknown_field$")
        ok = len(rec) == 1 and rec[0]["form"] in ("adapter", "loop")
        detail = "%s" % [(h["form"], h["source"][:100]) for h in rec]
        if ok and rec[0]["form"] == "adapter":
            # the adapter chain from the bundle's vector to the rebuilt one only maps
            chains = [re.findall(r"Iterator(?:>)?::(\w+)\(", ctx.expr(g, t_["args"][0])) + [mir.callee_of(t_).rsplit("::", 1)[-1]] for _, t_ in ctx.find_calls(g, r"Iterator(>)?::collect$")]
            flat = [x for c in chains for x in c]
            ok = bool(chains) and not (set(flat) - {"map", "collect", "into_iter", "iter", "cloned", "by_ref"})
            detail += "; adapter chain %s" % flat
        elif ok:
            # loop form: the recursive call stands unconditionally in the loop body
            pcs = ctx.pc_strs(rec[0]["owner"], rec[0]["blk"])
            loop_only = all(all("Iterator>::next(" in a_ or a_.startswith("discr(self.kind)=") or a_.startswith("len(self.locations)") for a_ in d) for d in pcs)
            ok = loop_only
            detail += "; loop conditions %s" % [sorted(d) for d in pcs]
        ctx.ob("C02.G.sibling-alts-keeps-every-error", g.key, "every child of the bundle is re-visited and kept", ok, detail)
    # every leaf carries its outer-to-inner location path: construction and hand-down of paths (shared with C04)
    from .C04 import location_rules
    location_rules(ctx, "C02.loc")
    # bundling keeps the vector
    f = ctx.fn("darling_core::error::Error::multiple")
    if f:
        for blk, i, st in ctx.find_aggregates(f, r"ErrorKind$", "Multiple"):
            e = ctx.expr(f, st["r"])
            ctx.ob("C02.G.bundle-keeps-vector", f.key, "Multiple(errors)", e.endswith("Multiple{a1}"), "bundle carries %s" % e)
        pops = ctx.find_calls(f, r"^alloc::vec::Vec::<T, A>::pop$")
        for blk, t in pops:
            ctx.requires("C02.G.bundle-of-one", f, blk, "pop()", [r"len\(a1\)=1$"])
        ctx.ob("C02.G.bundle-of-one", f.key, "pop()", len(pops) == 1, "%d pops" % len(pops))

    # ------------------------------------------------------------ [B] derived population
    pop = derived.population(ctx)
    ctx.floor("C02.B", "derived darling fns in tests/examples", len(pop), 110)
    n_acc = common.acc_typestate(ctx, "C02.B.T.no-live-drop", pop)
    n_ok = n_dup = n_loop = 0
    for b in pop:
        D = derived.DerivedFn(b)
        if not D.acc_locals:
            continue
        # single exit: every Ok(..) that is reachable from an accumulator creation is dominated by a finish on it
        for blk, st in D.ok_blocks:
            creators = [cb for cb, _ in D.creates if b.dominates(cb, blk)]
            if not creators:
                continue
            n_ok += 1
            fins = [fb for fb, _ in D.finishes if b.dominates(fb, blk)]
            conds = D.conds(blk)
            ok = bool(fins) and bool(conds) and all(any(re.search(r"is_ok\(.*Accumulator::finish", a) and a.endswith("=True") for a in d) for d in conds)
            ctx.ob("C02.B.single-exit", b.key, "Ok(..)", ok, "Ok at bb%d: dominating finish calls %s" % (blk, fins))
            # exactly once: no finish reachable after another finish on the way
            for fb in fins:
                t = b.term(fb)
                after = b.reachable(t["target"], False) if t.get("target") is not None else set()
                again = [f2 for f2, _ in D.finishes if f2 in after and f2 != fb and b.dominates(fb, f2) and b.dominates(creators[-1], fb) and _same_acc(D, fb, f2)]
                ctx.ob("C02.B.finish-once", b.key, "finish", not again, "second finish of the same accumulator reachable at %s" % again)
        # no double report
        for cb, t in D.calls_to(r"^darling_core::error::Error::duplicate_field$"):
            n_dup += 1
            conds = D.conds(cb)
            ok = bool(conds) and all(any(re.match(r"^_\d+\.0=True$", a) for a in d) for d in conds)
            ctx.ob("C02.B.duplicate-iff-seen", b.key, "duplicate_field", ok, "duplicate error must be guarded by slot.0 = true: %s" % [sorted(a for a in d if re.match(r"^_\d+\.", a)) for d in conds])
        for slot, name in D.slots.items():
            for blk, first, second, node in D.slot_assignments(slot):
                if first != "true":
                    continue
                if "Accumulator::handle(" not in second:
                    continue
                conds = D.conds(blk)
                if "from_list(" in second and "__flatten" in second or re.search(r"FromMeta>::from_list\(", second):
                    continue  # flatten hand-off happens once after the loop
                ok = bool(conds) and all(("_%d.0=False" % slot) in d for d in conds)
                ctx.ob("C02.B.extract-iff-unseen", b.key, "slot %s := (true, handle(..))" % name, ok, "extraction must be guarded by slot.0 = false")
        # continuation: error pushes inside a loop return to the loop header
        heads = D.loop_headers()
        for cb, t in D.calls_to(r"^darling_core::error::Accumulator::push$"):
            inloop = [h for h in heads if b.dominates(h, cb) and h in b.reachable(cb, False)]
            if not [h for h in heads if b.dominates(h, cb)]:
                continue
            n_loop += 1
            ctx.ob("C02.B.push-continues", b.key, "push inside item loop", bool(inloop) or not _in_loop_body(b, heads, cb), "after recording an error the loop must continue")
    ctx.floor("C02.B.single-exit", "Ok constructions under an accumulator", n_ok, 80)
    ctx.floor("C02.B.duplicate", "duplicate_field sites", n_dup, 60)
    return ctx.finish(
        explanation="T/D over %d library bodies; template order/guard rules over the %d fn-body templates; dominance and path-condition rules over %d derived fns (%d Ok exits, %d duplicate guards, %d in-loop pushes)." % (len(nontest), len(FN_BODY_TEMPLATES), len(pop), n_ok, n_dup, n_loop),
        assumptions=["one-to-one correspondence of leaves and mistakes is a counting statement over inputs and is not decided",
                     "user callables report their own errors"],
    )


def _same_acc(D, fb, f2):
    a = D.b.term(fb)["args"][0]
    c = D.b.term(f2)["args"][0]
    return tpl.value_root(D.b, a) == tpl.value_root(D.b, c)


def _in_loop_body(b, heads, blk):
    for h in heads:
        if b.dominates(h, blk) and h in b.reachable(blk, False):
            return True
    return False

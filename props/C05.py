"""C05 – Accumulator: Ok iff nothing was recorded; nothing recorded is ever lost.

Decided: the ownership typestate of the API (signatures, no Clone/Copy), the guarded-action
shape of every method (G rules), and rule T on error/mod.rs.  Not decided: recording order as a
statement over histories (only "append to the same live Vec")."""
import re

from vlib import resalg, mir
from . import common

ACC = "darling_core::error::Accumulator"
A = ACC + "::"


def arg_ty(b, i):
    return b.local_ty(i)


def run(ctx):
    core = ctx.core("on")
    # ---------------------------------------------------------------- signatures (typestate by ownership)
    by_value = ["finish", "finish_with", "into_inner", "checkpoint"]
    by_mut = ["push", "handle", "handle_in"]
    for m in by_value:
        f = ctx.fn(A + m, rule="C05.sig")
        if f:
            ctx.ob("C05.sig.consumes-self", f.key, "self", arg_ty(f, 1) == ACC, "self type is `%s`, must be the accumulator by value" % arg_ty(f, 1))
    for m in by_mut:
        f = ctx.fn(A + m, rule="C05.sig")
        if f:
            ctx.ob("C05.sig.borrows-self", f.key, "self", arg_ty(f, 1) == "&mut " + ACC, "self type is `%s`, must be &mut" % arg_ty(f, 1))
    ext = ctx.fn("<%s as core::iter::traits::collect::Extend<darling_core::error::Error>>::extend" % ACC, rule="C05.sig")
    if ext:
        ctx.ob("C05.sig.borrows-self", ext.key, "self", arg_ty(ext, 1) == "&mut " + ACC, arg_ty(ext, 1))
    # not Clone / Copy; Drop present
    traits = sorted(i["trait"] for i in core["impls"] if i["self"] == ACC)
    ctx.ob("C05.sig.no-clone", ACC, "impl Clone/Copy", not any(t in ("core::clone::Clone", "core::marker::Copy") for t in traits),
           "trait impls of Accumulator: %s" % traits)
    ctx.ob("C05.sig.drop-impl", ACC, "impl Drop", "core::ops::drop::Drop" in traits, "trait impls: %s" % traits)
    # the tuple field is private: who-may-touch rule – only error/mod.rs functions project Accumulator.0
    outsiders = []
    for b in ctx.all_bodies(core):
        if b.key.startswith(A) or b.key.startswith("<" + ACC + " as "):
            continue
        for blk, i, st in b.stmts():
            for node in (st.get("p"), st.get("r", {}).get("p")):
                if node and any(l for l in [node] if b.local_ty(l["local"]).endswith(ACC) and l["proj"] and any(e["k"] == "field" for e in l["proj"])):
                    outsiders.append(b.key)
    ctx.ob("C05.who.field-private", ACC, "projection of Accumulator.0 outside its impl", not outsiders, "outside users: %s" % outsiders)

    # ---------------------------------------------------------------- finish_with
    f = ctx.fn(A + "finish_with")
    if f:
        # the case table: Ok(success) exactly when nothing was recorded, otherwise Err(multiple(recorded))
        cs = resalg.cases(ctx, f)
        INNER = "darling_core::error::Accumulator::into_inner(self)"
        oks = [(c, v) for c, v in cs if v.startswith("core::result::Result::Ok{")]
        errs = [(c, v) for c, v in cs if v.startswith("core::result::Result::Err{")]
        ctx.ob("C05.finish_with.shape", f.key, "one Ok and one Err case", len(oks) == 1 and len(errs) == 1 and len(cs) == 2, "cases %s" % cs)
        for c, v in oks:
            ctx.ob("C05.finish_with.ok-iff-empty", f.key, "Ok(success)", c == ["len(%s)=0" % INNER], "Ok under %s" % c)
            ctx.ob("C05.finish_with.ok-value", f.key, "Ok(success)", v == "core::result::Result::Ok{a2}", "Ok carries %s (must be the `success` argument)" % v)
        for c, v in errs:
            ctx.ob("C05.finish_with.err-iff-nonempty", f.key, "Err(multiple)", c == ["len(%s)=('not-in', (0,))" % INNER], "Err under %s" % c)
            ctx.ob("C05.finish_with.err-value", f.key, "Err(multiple)", v == "core::result::Result::Err{darling_core::error::Error::multiple(%s)}" % INNER,
                   "Err carries %s (must be Error::multiple of the recorded vector)" % v)
    f = ctx.fn(A + "finish")
    if f:
        rets = ctx.ret_exprs(f)
        ctx.ob("C05.finish.delegates", f.key, "return", [e for _, e in rets] == ["darling_core::error::Accumulator::finish_with(self, tuple{})"],
               "returns %s" % rets)
    # ---------------------------------------------------------------- handle / handle_in / push / extend
    f = ctx.fn(A + "handle")
    if f:
        # the case table of handle and the condition of its one effect, however it is spelled
        # (match, map_err(..).ok(), if let ..)
        cs = sorted((tuple(a for a in c if not a.startswith("did:")), v) for c, v in resalg.cases(ctx, f))
        want = sorted([(("is_ok(a2)=True",), "core::option::Option::Some{(a2 as Ok).0}"), (("is_ok(a2)=False",), "core::option::Option::None{}")])
        ctx.ob("C05.handle.shape", f.key, "Ok(v) => Some(v), Err(e) => None", cs == want, "cases %s" % cs)
        ctx.ob("C05.handle.some-iff-ok", f.key, "Some(y)", (("is_ok(a2)=True",), "core::option::Option::Some{(a2 as Ok).0}") in cs, "cases %s" % cs)
        effs = resalg.effects(ctx, f, r"^darling_core::error::Accumulator::push$")
        ok = len(effs) == 1 and "is_ok(a2)=False" in effs[0][0] and effs[0][1] == ["self", "(a2 as Err).0"]
        ctx.ob("C05.handle.push-iff-err", f.key, "push(e) exactly when given Err(e)", ok, "push effects %s" % effs)
    f = ctx.fn(A + "handle_in")
    if f:
        rets = ctx.ret_values(f)
        ctx.ob("C05.handle_in.delegates", f.key, "return",
               len(rets) == 1 and bool(re.match(r"^darling_core::error::Accumulator::handle\(self, .*call_once\(a2, tuple\{\}\)\)$", rets[0])), "returns %s" % rets)
    f = ctx.fn(A + "push")
    if f:
        c = ctx.find_calls(f, r"^alloc::vec::Vec::<T, A>::push$")
        ok = len(c) == 1 and ctx.expr(f, c[0][1]["args"][0]) == "darling_core::error::Accumulator::errors(self)" and ctx.expr(f, c[0][1]["args"][1]) == "a2"
        ctx.ob("C05.push.appends-live-vector", f.key, "Vec::push(errors(), error)", ok and f.dominates(c[0][0], _ret_block(f)),
               "calls: %s" % [(ctx.expr(f, t["args"][0]), ctx.expr(f, t["args"][1])) for _, t in c])
    if ext:
        c = ctx.find_calls(ext, r"core::iter::traits::collect::Extend<.*>>::extend")
        ok = len(c) == 1 and ctx.expr(ext, c[0][1]["args"][0]) == "darling_core::error::Accumulator::errors(self)" and ctx.expr(ext, c[0][1]["args"][1]) == "a2"
        if not c:
            # the same appended one by one: `for e in iter { self.errors().push(e) }`, unconditionally
            hs = [h for h in ctx.per_element(ext, r"^alloc::vec::Vec::<T, A>::push$") if h["form"] == "loop" and h["owner"] is ext]
            if len(hs) == 1:
                h = hs[0]
                pblk = [b2 for b2, t2 in ctx.find_calls(ext, r"^alloc::vec::Vec::<T, A>::push$")][0]
                guards = [sorted(a for a in d if "Iterator>::next(" not in a and "Iterator::next(" not in a) for d in ctx.pc_strs(ext, pblk)]
                ok = ctx.expr(ext, h["t"]["args"][0]) == "darling_core::error::Accumulator::errors(self)" and "into_iter(a2)" in h["source"].replace("IntoIterator>::into_iter", "into_iter").replace("IntoIterator::into_iter", "into_iter") \
                    and ("Iterator>::next(" in ctx.expr(ext, h["t"]["args"][1]) or "as Some).0" in ctx.expr(ext, h["t"]["args"][1])) and all(not g for g in guards)
                c = [(pblk, h["t"])]
        ctx.ob("C05.extend.appends-live-vector", ext.key, "Vec::extend(errors(), iter)", ok, "calls: %s" % [(ctx.expr(ext, t["args"][0]), ctx.expr(ext, t["args"][1])) for _, t in c])
    f = ctx.fn(A + "errors")
    if f:
        rets = ctx.ret_values(f)
        # `match &mut self.0 { Some(v) => v, None => panic!() }` or `self.0.as_mut().unwrap_or_else(|| <diverges>)`
        okr = rets == ["(self.0 as Some).0"]
        if not okr and len(rets) == 1:
            m = re.match(r"^core::option::Option::<T>::unwrap_or_else\(self\.0, closure ([^\[]+)\[\]\)$", rets[0])
            if m:
                cl = [c for c in ctx.closures_of(f) if c.key == m.group(1)]
                okr = len(cl) == 1 and cl[0].local_ty(0) == "!" or len(cl) == 1 and not [b2 for b2 in cl[0].normal_blocks() if cl[0].term(b2)["k"] == "return"]
        ctx.ob("C05.errors.live-vector", f.key, "return", okr, "returns %s" % rets)
    # ---------------------------------------------------------------- into_inner / checkpoint / default
    f = ctx.fn(A + "into_inner")
    if f:
        rets = ctx.ret_values(f)
        okv = rets == ["(self.0 as Some).0"]
        m_ = re.match(r"^core::option::Option::<T>::unwrap_or_else\(self\.0, closure ([^\[]+)\[", rets[0]) if len(rets) == 1 else None
        if m_:
            # `.unwrap_or_else(|| diverging())`: the payload, or no return at all
            cl = [c for c in ctx.closures_of(f) if c.key == m_.group(1)]
            okv = len(cl) == 1 and (cl[0].local_ty(0) == "!" or not [b2 for b2 in cl[0].normal_blocks() if cl[0].term(b2)["k"] == "return"])
        ctx.ob("C05.into_inner.take", f.key, "return", okv and len(ctx.find_calls(f, r"^core::option::Option::<T>::take$|^core::mem::take$")) == 1, "returns %s" % rets)
    dflt = ctx.fn("<%s as core::default::Default>::default" % ACC)
    if dflt:
        rets = ctx.ret_values(dflt)
        ctx.ob("C05.default.armed-empty", dflt.key, "return",
               rets == ["darling_core::error::Accumulator::Accumulator{core::option::Option::Some{alloc::vec::Vec::<T>::new()}}"], "returns %s" % rets)
    f = ctx.fn("darling_core::error::Error::accumulator")
    if f:
        rets = ctx.ret_values(f)
        ctx.ob("C05.accumulator.default", f.key, "return", rets == ["<darling_core::error::Accumulator as core::default::Default>::default()"], "returns %s" % rets)
    f = ctx.fn(A + "checkpoint")
    if f:
        fin = ctx.find_calls(f, r"^darling_core::error::Accumulator::finish$")
        ctx.ob("C05.checkpoint.finishes-self", f.key, "finish(self)", len(fin) == 1 and ctx.expr(f, fin[0][1]["args"][0]) == "self", "%d finish calls" % len(fin))
        FIN = "darling_core::error::Accumulator::finish(self)"
        cs = sorted((tuple(c), v) for c, v in resalg.cases(ctx, f))
        want = sorted([(("is_ok(%s)=True" % FIN,), "core::result::Result::Ok{<darling_core::error::Accumulator as core::default::Default>::default()}"),
                       (("is_ok(%s)=False" % FIN,), "core::result::Result::Err{(%s as Err).0}" % FIN)])
        ctx.ob("C05.checkpoint.ok-iff-clean", f.key, "finish(self) Ok => Ok(fresh armed accumulator)", want[0] in cs or want[1] in cs and any(v.startswith("core::result::Result::Ok{<darling_core::error::Accumulator as core::default::Default>::default()") for c, v in cs), "cases %s" % cs)
        ctx.ob("C05.checkpoint.err-iff-recorded", f.key, "finish(self) Err(e) => Err(e)", cs == want, "cases %s" % cs)
    # ---------------------------------------------------------------- the drop bomb
    f = ctx.fn("<%s as core::ops::drop::Drop>::drop" % ACC)
    if f:
        panics = ctx.find_calls(f, r"^core::panicking::")
        ctx.ob("C05.drop.two-panics", f.key, "panic sites", len(panics) == 2, "%d panic sites (empty and non-empty arm)" % len(panics))
        empties = 0
        counts = 0
        for blk, t in panics:
            ctx.requires("C05.drop.guard", f, blk, "panic", [r"panicking\(\)=False", r"is_some\(self\.0\)=True"])
            d = ctx.pc_strs(f, blk)
            if all(ctx._sat(x, r"len\(\(self\.0 as Some\)\.0\)=0$") for x in d):
                empties += 1
            if all(ctx._sat(x, r"len\(\(self\.0 as Some\)\.0\)=\('not-in', \(0,\)\)") for x in d):
                # the message of the non-empty arm formats the count
                has_count = any(f.dominates(b2, blk) for b2, t2 in ctx.find_calls(f, r"Argument::<'_>::new_display::<usize>"))
                counts += 1 if has_count else 0
        ctx.ob("C05.drop.panics-when-empty", f.key, "panic under len=0", empties == 1, "%d panic sites under len == 0" % empties)
        ctx.ob("C05.drop.states-count", f.key, "panic under len!=0 formats the count", counts == 1, "%d panic sites under len != 0 with a usize argument" % counts)
        # no panic reachable while unwinding
        for blk, t in panics:
            ctx.forbids("C05.drop.silent-while-unwinding", f, blk, "panic", [r"panicking\(\)=True"])
    # ---------------------------------------------------------------- T on the error module
    bodies = [b for b in ctx.all_bodies(core) if b.file.endswith("error/mod.rs") and not common.scan.is_test_body(b)]
    n = common.acc_typestate(ctx, "C05.T.no-live-drop", bodies)
    ctx.floor("C05.T", "functions of error/mod.rs holding an accumulator", n, 8)
    if ctx.tier == "thorough":
        from . import witness
        witness.run_witnesses(ctx, "C05")
    return ctx.finish(
        explanation="Static decision of the accumulator's typestate and guarded-action shape on darling_core's MIR: signatures (self by value / &mut), "
                    "absence of Clone/Copy, privacy of the inner Option, path conditions of every Ok/Err/Some/None/push/panic site, and rule T (no live drop).",
        assumptions=["recording order is decided only as 'append to the same live Vec' (std Vec::push/extend trusted)"],
    )


def _ret_block(f):
    for b in sorted(f.normal_blocks()):
        if f.term(b)["k"] == "return":
            return b
    return None

"""C11 – scalar conversions are exact: in range means that value, otherwise an error.

Thin slice: for each of the 24 integer and 2 float impls, the unquoted arm calls
`LitInt/LitFloat::base10_parse::<N>` and the quoted arm `str::parse::<N>` with N = the impl's own
type; both errors are converted, never unwrapped; the impl bodies contain no numeric `as` cast,
no wrapping/saturating/overflowing/unchecked arithmetic and no defaulting adapter; other literal
kinds go to unexpected_lit_type; bool/char/String/PathBuf shapes.
Not decided: the values themselves (std's and syn's parsers are the trusted base)."""
import re

from vlib import resalg, mir
from . import common

META = dict(
    level="thin structural slice: the parse call of every numeric impl is the checked std/syn parser instantiated at the impl's own type and its error is converted on every path; exactness of the parsed value is delegated to std/syn",
    technique="static analysis: callee identity with type-argument identity, forbidden-construct scan (casts, wrapping arithmetic, defaulting adapters)",
)
INTS = ["u8", "u16", "u32", "u64", "u128", "usize", "i8", "i16", "i32", "i64", "i128", "isize"]
NUMS = INTS + ["core::num::nonzero::NonZero<%s>" % t for t in INTS]
FLOATS = ["f32", "f64"]
FORBIDDEN_CALL = re.compile(r"::(wrapping_|saturating_|overflowing_|unchecked_|unwrap_or|unwrap_or_default|unwrap_or_else|unwrap$|expect$|ok$|map_or|from_str_radix|try_from|try_into|min$|max$|clamp$)")


def bodies_of(ctx, ty, method):
    key = "<%s as darling_core::from_meta::FromMeta>::%s" % (ty, method)
    f = ctx.fn(key, rule="C11.anchor")
    return f, ([f] + ctx.closures_of(f) if f else [])


def private_helpers(ctx, f):
    """private fns of the crate a hook may have been factored into (two levels)"""
    return [h for h in ctx.local_callees(f, depth=2) if str(h.raw.get("vis", "")).startswith("Restricted")]


def forbid_scan(ctx, rule, f, bodies):
    bad = []
    for b in bodies:
        for blk, i, st in b.stmts():
            r = st.get("r", {})
            if r.get("k") == "cast" and r["cast"] in ("IntToInt", "FloatToInt", "IntToFloat", "FloatToFloat"):
                bad.append("numeric cast %s" % r["cast"])
            if r.get("k") == "binop" and r["op"] in ("Add", "Sub", "Mul", "Div", "Rem", "Shl", "Shr", "AddUnchecked", "SubUnchecked", "MulUnchecked", "AddWithOverflow", "SubWithOverflow", "MulWithOverflow", "BitAnd", "BitOr"):
                bad.append("arithmetic %s" % r["op"])
        for blk, t in b.calls():
            c = mir.callee_of(t) or ""
            if FORBIDDEN_CALL.search(c):
                bad.append("call %s" % c)
    ctx.ob(rule, f.key, "no cast / wrapping arithmetic / defaulting adapter", not bad, "forbidden constructs: %s" % bad)


def run(ctx):
    n = 0
    for ty, lit, parser in [(t, "Int", "syn::lit::LitInt::base10_parse") for t in NUMS] + [(t, "Float", "syn::lit::LitFloat::base10_parse") for t in FLOATS]:
        f, bodies = bodies_of(ctx, ty, "from_value")
        if not f:
            continue
        n += 1
        # from_value as a case table (helpers, `?`, explicit matches and combinators looked through):
        #   Int/Float literal: Ok(v) of base10_parse::<ty>(lit), else Err(with_span(Error::from(e), value))
        #   Str literal:       whatever <ty>::from_string(s.value()) says, errors spanned with the value
        #   any other kind:    Err(with_span(unexpected_lit_type(value), value))
        rows = resalg.raw_cases(ctx, f)
        s_, _ = ctx.sym(f)
        txt = sorted((sorted(resalg._atom(e, v, s_) for e, v in c), resalg.S.show(resalg.S.strip_transparent(v), s_)) for c, v in rows)
        P = "%s((a1 as %s).0)" % (parser, lit)
        FS = "<%s as darling_core::from_meta::FromMeta>::from_string(syn::lit::LitStr::value((a1 as Str).0))" % ty
        kinds = tuple(sorted([lit, "Str"]))
        want = sorted([
            (sorted(["discr(a1)=%s" % lit, "is_ok(%s)=True" % P]), "core::result::Result::Ok{(%s as Ok).0}" % P),
            (sorted(["discr(a1)=%s" % lit, "is_ok(%s)=False" % P]), "core::result::Result::Err{darling_core::error::Error::with_span(From::from((%s as Err).0), a1)}" % P),
            (sorted(["discr(a1)=Str", "is_ok(%s)=True" % FS]), "core::result::Result::Ok{(%s as Ok).0}" % FS),
            (sorted(["discr(a1)=Str", "is_ok(%s)=False" % FS]), "core::result::Result::Err{darling_core::error::Error::with_span((%s as Err).0, a1)}" % FS),
            (["discr(a1)=('not-in', %r)" % (kinds,)], "core::result::Result::Err{darling_core::error::Error::unexpected_lit_type(a1)}"),
        ])
        ctx.ob("C11.F.unquoted-parser", f.key, "from_value case table", txt == want, "cases %s" % [(c, v[:110]) for c, v in txt if (c, v) not in want][:3])
        pc_ = [resalg.find_call(v, parser) or next((resalg.find_call(e, parser) for e, _ in c if resalg.find_call(e, parser)), None) for c, v in rows]
        pc_ = [x for x in pc_ if x is not None]
        ctx.ob("C11.F.unquoted-error-converted", f.key, "%s::<%s>" % (parser.rsplit("::", 2)[-2] + "::base10_parse", ty), bool(pc_) and all(tuple(x[3]) == (ty,) for x in pc_), "type arguments %s" % sorted({tuple(x[3]) for x in pc_}))
        forbid_scan(ctx, "C11.no-lossy-construct", f, bodies + private_helpers(ctx, f))
        # from_string
        g, gb = bodies_of(ctx, ty, "from_string")
        if g:
            rows = resalg.raw_cases(ctx, g)
            s_, _ = ctx.sym(g)
            txt = sorted((sorted(resalg._atom(e, v, s_) for e, v in c), resalg.S.show(resalg.S.strip_transparent(v), s_)) for c, v in rows)
            PS = "core::str::<impl str>::parse(a1)"
            want = sorted([(["is_ok(%s)=True" % PS], "core::result::Result::Ok{(%s as Ok).0}" % PS), (["is_ok(%s)=False" % PS], "core::result::Result::Err{darling_core::error::Error::unknown_value(a1)}")])
            ctx.ob("C11.F.quoted-error-converted", g.key, "Ok(v) of s.parse(), else Err(unknown_value(s))", txt == want, "cases %s" % [(c, v[:110]) for c, v in txt])
            pc_ = [resalg.find_call(v, "core::str::<impl str>::parse") or next((resalg.find_call(e, "core::str::<impl str>::parse") for e, _ in c if resalg.find_call(e, "core::str::<impl str>::parse")), None) for c, v in rows]
            pc_ = [x for x in pc_ if x is not None]
            ctx.ob("C11.F.quoted-parser", g.key, "str::parse::<%s>(s)" % ty, bool(pc_) and all(tuple(x[3]) == (ty,) for x in pc_), "type arguments %s" % sorted({tuple(x[3]) for x in pc_}))
            forbid_scan(ctx, "C11.no-lossy-construct", g, gb + private_helpers(ctx, g))
        # the impl overrides exactly {from_string, from_value}
        core = ctx.core("on")
        imp = [i for i in core["impls"] if i["trait"] == "darling_core::from_meta::FromMeta" and i["self"] == ty]
        ctx.ob("C11.S.hooks", "<%s as FromMeta>" % ty, "overridden hooks", len(imp) == 1 and sorted(imp[0]["items"]) == ["from_string", "from_value"], "%s" % [i["items"] for i in imp])
    ctx.floor("C11.numeric", "numeric FromMeta impls", n, 26)
    # ---------------------------------------------------------------- bool / char / String / PathBuf
    f, _ = bodies_of(ctx, "bool", "from_word")
    if f:
        rs = ctx.ret_values(f)
        ctx.ob("C11.G.bool-word-is-true", f.key, "return", rs == ["core::result::Result::Ok{true}"], "returns %s" % rs)
    f, _ = bodies_of(ctx, "bool", "from_bool")
    if f:
        rs = ctx.ret_values(f)
        ctx.ob("C11.G.bool-literal-identity", f.key, "return", rs == ["core::result::Result::Ok{a1}"], "returns %s" % rs)
    f, fb = bodies_of(ctx, "bool", "from_string")
    if f:
        ps = ctx.find_calls(f, r"^core::str::<impl str>::parse$")
        ok = len(ps) == 1 and mir.callee_info(ps[0][1]).get("targs") == ["bool"]
        if not ps:
            # what `str::parse::<bool>` accepts, written out: exactly "true" and "false"
            cs = resalg.cases(ctx, f)
            EQ = 'core::str::traits::<impl core::cmp::PartialEq for str>::eq(a1, "%s")=%s'
            want = sorted([([EQ % ("true", "True")], "core::result::Result::Ok{true}"),
                           (sorted([EQ % ("true", "False"), EQ % ("false", "True")]), "core::result::Result::Ok{false}"),
                           (sorted([EQ % ("true", "False"), EQ % ("false", "False")]), "core::result::Result::Err{darling_core::error::Error::unknown_value(a1)}")])
            ok = sorted((sorted(c), v) for c, v in cs) == want
        ctx.ob("C11.F.bool-quoted-parser", f.key, "str::parse::<bool>", ok, "%s" % [mir.callee_info(t).get("targs") for _, t in ps])
    f, _ = bodies_of(ctx, "char", "from_char")
    if f:
        rs = ctx.ret_values(f)
        ctx.ob("C11.G.char-literal-identity", f.key, "return", rs == ["core::result::Result::Ok{a1}"], "returns %s" % rs)
    f, _ = bodies_of(ctx, "char", "from_string")
    if f:
        oks = ctx.find_aggregates(f, r"^core::result::Result$", "Ok")
        nx = ctx.find_calls_deep(f, r"core::str::iter::Chars<'_> as core::iter::traits::iterator::Iterator>::next$|Chars.*Iterator>::next$")
        # the same test as a combinator chain: `chars.next().filter(|_| chars.next().is_none()).ok_or_else(..)`
        chain = False
        if not oks:
            rv = ctx.ret_values(f)
            for _, t_ in ctx.find_calls(f, r"^core::option::Option::<T>::filter$"):
                a0, a1 = ctx.expr(f, t_["args"][0]), ctx.expr(f, t_["args"][1])
                cl = [c for c in ctx.closures_of(f) if c.key in a1]
                tc = ctx.true_conditions(cl[0]) if len(cl) == 1 else None
                chain = "Iterator>::next(" in a0 and tc is not None and len(tc) == 1 and len(tc[0]) == 1 and re.match(r"^is_some\(.*Iterator>::next\(.*\)\)=False$", list(tc[0])[0]) is not None \
                    and len(rv) == 1 and rv[0].startswith("core::option::Option::<T>::ok_or_else(core::option::Option::<T>::filter(")
        ctx.ob("C11.G.char-one-character", f.key, "one Ok", len(oks) == 1 or chain, "%d Ok constructions; combinator form %s" % (len(oks), chain))
        for blk, i, st in oks:
            ctx.requires("C11.G.char-one-character", f, blk, "Ok(char)", [r"is_some\(.*Iterator>::next\(.*\)\)=True", r"is_some\(.*Iterator>::next\(.*\)\)=False"])
        ctx.ob("C11.G.char-two-probes", f.key, "chars.next() twice", len(nx) == 2, "%d next() calls" % len(nx))
    for ty, conv in (("alloc::string::String", r"to_string\(a1\)|ToString>::to_string\(a1\)|<alloc::string::String as core::convert::From<&str>>::from\(a1\)|ToOwned>::to_owned\(a1\)"), ("std::path::PathBuf", r"Into<.*>>::into\(a1\)|PathBuf.*from\(a1\)|into\(a1\)")):
        f, _ = bodies_of(ctx, ty, "from_string")
        if f:
            rs = ctx.ret_values(f)
            ok = len(rs) == 1 and rs[0].startswith("core::result::Result::Ok{") and bool(re.search(conv, rs[0])) or len(rs) == 1 and rs[0] == "core::result::Result::Ok{a1}"
            ctx.ob("C11.G.string-as-it-stands", f.key, "return", ok, "returns %s" % rs)
    # ---------------------------------------------------------------- "wrong meta form yields an error"
    # none of the scalar targets overrides from_expr: a name-value whose value is not a literal (or an
    # invisible group around one) is decided by the default from_expr (rules shared with C15)
    core = ctx.core("on")
    for ty in NUMS + FLOATS + ["bool", "char", "alloc::string::String", "std::path::PathBuf"]:
        imp = [i for i in core["impls"] if i["trait"] == "darling_core::from_meta::FromMeta" and i["self"] == ty]
        ctx.ob("C11.S.no-own-from-expr", "<%s as FromMeta>" % ty, "from_expr / from_meta / from_nested_meta left at the default", len(imp) == 1 and not ({"from_expr", "from_nested_meta"} & set(imp[0]["items"])) and ("from_meta" not in imp[0]["items"] or ty == "bool"), "%s" % [i["items"] for i in imp])
    from .C15 import default_expr_routing_rules
    default_expr_routing_rules(ctx, "C11.route")
    # ---------------------------------------------------------------- "never a panic"
    # closed census over the scalar hooks and every darling function they reach (error constructors
    # included): a panic-capable construct needs a row of the shared table with a discharged guard
    roots = []
    for ty in NUMS + FLOATS + ["bool", "char", "alloc::string::String", "std::path::PathBuf"]:
        for m in ("from_value", "from_string", "from_word", "from_bool", "from_char"):
            f = ctx.fn("<%s as darling_core::from_meta::FromMeta>::%s" % (ty, m), required=False)
            if f:
                roots.append(f)
    reach = {}
    for f in roots:
        for b in [f] + ctx.closures_of(f) + ctx.local_callees(f, depth=4):
            for bb in [b] + ctx.closures_of(b):
                reach[bb.key] = bb
    sites = common.panic_census(ctx, "C11.C", list(reach.values()), "runtime")
    ctx.ob("C11.C.reach", "scalar hooks", "functions reached", len(reach) >= len(roots) + 5, "%d functions reached from %d hooks; %d panic-capable sites, each matched to a table row" % (len(reach), len(roots), len(sites)))
    return ctx.finish(
        explanation="Callee/type-argument identity and forbidden-construct scan over %d numeric impls (from_value, from_string and their closures) plus the bool/char/String/PathBuf hooks." % n,
        assumptions=["core::str::parse::<N>, syn::LitInt::base10_parse::<N> and syn::LitFloat::base10_parse::<N> are exact (trusted base)",
                     "radix/suffix handling inside syn and quoted/unquoted agreement are value-level and not decided"],
    )

"""C10 – derive-time validation accepts exactly the well-formed declarations.

Decided on the option chains of options/* (keyed by the option-name constant of `is_ident`):
duplicate guards, the symmetric conflict matrix, the unknown-option exit, delegation of the
remaining names down the chain, existence of every documented body rule as a guarded error, and
`with_span(<offending tokens>)` on each error.  Thorough adds compile_fail witnesses.
Not decided: the `iff` as a statement over all declarations."""
import re

from vlib import mir, scan
from . import common

META = dict(
    level="each documented validation rule exists as a guarded, spanned error on every path of the option chains, in both textual orders; the reject direction is additionally witnessed by compile_fail doctests in the thorough tier",
    technique="static analysis: path-condition rules keyed by option-name constants; compile-fail witnesses (thorough)",
)
PN = "<darling_core::options::%s as darling_core::options::ParseAttribute>::parse_nested"
O = "darling_core::options::"

# chain -> option -> (slot field, duplicate-guard atom regex or None)
CHAINS = {
    "core::Core": {
        "default": ("default", r"is_some\(self\.default\)"),
        "rename_all": ("rename_rule", None),
        "map": ("post_transform", r"is_some\(self\.post_transform\)"),
        "and_then": ("post_transform", r"is_some\(self\.post_transform\)"),
        "bound": ("bound", None),
        "allow_unknown_fields": ("allow_unknown_fields", r"is_some\(self\.allow_unknown_fields\)"),
    },
    "input_field::InputField": {
        "rename": ("attr_name", r"is_some\(self\.attr_name\)"),
        "default": ("default", r"is_some\(self\.default\)"),
        "with": ("with", r"is_some\(self\.with\)"),
        "skip": ("skip", r"is_some\(self\.skip\)"),
        "map": ("post_transform", r"is_some\(self\.post_transform\)"),
        "and_then": ("post_transform", r"is_some\(self\.post_transform\)"),
        "multiple": ("multiple", r"is_some\(self\.multiple\)"),
        "flatten": ("flatten", r"is_some\(self\.flatten\.0\)"),
    },
    "input_variant::InputVariant": {
        "rename": ("attr_name", r"is_some\(self\.attr_name\)"),
        "skip": ("skip", r"is_some\(self\.skip\)"),
        "word": ("word", r"is_some\(self\.word\)"),
    },
    "from_meta::FromMetaOptions": {
        "from_word": ("from_word", r"is_some\(self\.from_word\)"),
        "from_none": ("from_none", r"is_some\(self\.from_none\)"),
    },
    "outer_from::OuterFrom": {
        "attributes": ("attr_names", None),
        "forward_attrs": ("forward_attrs", None),
        "from_ident": ("from_ident", None),
    },
    "from_derive::FdiOptions": {"supports": ("supports", None)},
    "from_variant::FromVariantOptions": {"supports": ("supports", None)},
    "forwarded_field::ForwardedField": {"with": ("with", r"is_some\(self\.with\)")},
}
# what happens to a name the chain does not know
FALLTHROUGH = {
    "core::Core": "error",
    "input_field::InputField": "error",
    "input_variant::InputVariant": "error",
    "forwarded_field::ForwardedField": "error",
    "from_meta::FromMetaOptions": PN % "core::Core",
    "outer_from::OuterFrom": PN % "core::Core",
    "from_derive::FdiOptions": PN % "outer_from::OuterFrom",
    "from_variant::FromVariantOptions": PN % "outer_from::OuterFrom",
    "from_field::FromFieldOptions": PN % "outer_from::OuterFrom",
    "from_type_param::FromTypeParamOptions": PN % "outer_from::OuterFrom",
    "from_attributes::FromAttributesOptions": PN % "outer_from::OuterFrom",
}
# flatten conflicts: option -> atom saying "that option is set" as seen from the flatten branch
FLATTEN_CONFLICTS = {
    "rename": r"is_some\(self\.attr_name\)=True",
    "with": r"is_some\(self\.with\)=True",
    "skip": [[r"unwrap_or_default\(.*self\.skip.*\)=True"], [r"^is_some\(self\.skip\)=True$", r"^\(self\.skip as Some\)\.0(\.value)?=True$"]],
    "multiple": r"self\.multiple.*=True",
}
CTOR_RX = r"^darling_core::error::Error::(custom|duplicate_field|duplicate_field_path|unknown_field_path|unknown_field_path_with_alts|unknown_field)$"


def opt_atom(name, val):
    # `path.is_ident("x")`, or the path's single identifier compared as a string
    return r'(?:is_ident\(.*|PartialEq for str>::eq\(.*get_ident\(.*), "%s"\)=%s' % (name, val)


OPT_TEST = re.compile(r'is_ident\(|PartialEq for str>::eq\(.*get_ident\(')


class Ev(tuple):
    """(blk, ctor, first-arg expr, spanned-with expr|None) plus .pcs = the conditions under which
    the error is built (None: the path condition of blk)"""
    pcs = None


def ev_pcs(ctx, f, e):
    return e.pcs if getattr(e, "pcs", None) is not None else ctx.pc_strs(f, e[0])


def table_error_events(ctx, f):
    """Errors built per row of a filtered table (`[(cond, msg), ..].iter().filter(|(c, _)| *c)
    .for_each(|(_, m)| acc.push(Error::custom(m).with_span(item)))` or `.map(..)` into `extend`):
    one event per row, under the row's own condition, with the row's operands in place of the
    closure's element."""
    from vlib import sym as S, resalg as RA
    rows = ctx.filtered_table_rows(f)
    if not rows:
        return []
    s_f, _ = ctx.sym(f)
    out = []

    def fold(e):
        if not isinstance(e, tuple) or not e:
            return e
        e = tuple(fold(x) if isinstance(x, tuple) else x for x in e)
        if e[0] == "field" and isinstance(e[1], tuple) and e[1][0] == "agg" and e[1][1] == "tuple" and str(e[2]).isdigit() and int(e[2]) < len(e[1][2]):
            return e[1][2][int(e[2])]
        return e

    tuples = {}
    for blk, i, st in f.stmts():
        if st["k"] == "assign" and st["r"]["k"] == "aggregate" and st["r"]["agg"] == "tuple" and not st["p"]["proj"]:
            tuples[st["p"]["local"]] = st
    for blk, t in f.calls():
        nm = mir.callee_of(t) or ""
        if not ctx.ADAPTERS.search(nm) or nm.endswith("::filter") or len(t["args"]) < 2:
            continue
        if "Iterator::filter(" not in ctx.expr(f, t["args"][0]) and "Iterator>::filter(" not in ctx.expr(f, t["args"][0]):
            continue
        cl = S.strip_transparent(s_f.operand(t["args"][-1]))
        if cl[0] != "closure":
            continue
        cb = RA._closure_body(f.crate, cl[1])
        if cb is None:
            continue
        s_c = S.Sym(cb)
        spans = [(S.strip_transparent(s_c.operand(t2["args"][0])), t2["args"][1]) for _, t2 in ctx.find_calls(cb, r"^darling_core::error::Error::with_span$")]
        for b2, t2 in ctx.find_calls(cb, CTOR_RX):
            me = S.strip_transparent(s_c._def_expr((b2, "term", "call", t2), 0))
            sp_node = None
            for a0, a1 in spans:
                if RA._has_subterm(a0, me) or a0 == me:
                    sp_node = a1
            site = ctx.pc_strs(f, blk) or [set()]
            for locs, dnf in rows:
                tl = [l for l, st in tuples.items() if [(x.get("p") or {}).get("local") for x in st["r"]["ops"]] == locs]
                if not tl:
                    continue
                row = S.strip_transparent(s_f.rvalue(tuples[tl[0]]["r"]))
                sub = lambda e: S.strip_transparent(fold(RA._subst_closure(e, cl[2], [row])))
                a0s = S.show(sub(S.strip_transparent(s_c.operand(t2["args"][0]))), s_f) if t2["args"] else ""
                sps = S.show(sub(S.strip_transparent(s_c.operand(sp_node))), s_f) if sp_node is not None else None
                ev = Ev((blk, nm and mir.callee_of(t2).rsplit("::", 1)[-1], a0s, sps))
                ev.pcs = [set(d0) | set(d1) for d0 in site for d1 in dnf]
                out.append(ev)
    return out


def errors_of(ctx, f):
    """(blk, ctor, first-arg expr, spanned-with expr|None) for every error construction in f."""
    out = list(table_error_events(ctx, f))
    s, _ = ctx.sym(f)
    from vlib import tpl
    spans = [(blk, ctx.expr(f, t["args"][0]), ctx.expr(f, t["args"][1]), tpl.value_root(f, t["args"][0])) for blk, t in ctx.find_calls(f, r"^darling_core::error::Error::with_span$")]
    for blk, t in ctx.find_calls(f, CTOR_RX):
        me = s.show(s._def_expr((blk, "term", "call", t), 0))
        dest = t["dest"]["local"] if not t["dest"]["proj"] else None
        sp = None
        for sb, a0, a1, root in spans:
            if me in a0 or (dest is not None and root == dest):
                sp = a1
        out.append((blk, mir.callee_of(t).rsplit("::", 1)[-1], ctx.expr(f, t["args"][0]) if t["args"] else "", sp))
    # an error built by a private helper of the crate (`fn conflict(option, mi) -> Error { Error::custom(..).with_span(mi) }`)
    # counts at its call site, with the constructor and the span argument the helper uses
    for blk, t in f.calls():
        name = mir.callee_of(t)
        lst = ctx.bodies(f.crate).get(name) if name else None
        if not lst or lst[0].kind not in ("Fn", "AssocFn") or not str(lst[0].raw.get("vis", "")).startswith("Restricted") or lst[0].local_ty(0) != "darling_core::error::Error":
            continue
        h = lst[0]
        inner = errors_of(ctx, h) if h.key != f.key else []
        if len(inner) != 1:
            continue
        _, ctor, a0, sp = inner[0]
        # translate the helper's span argument (one of its parameters) to the caller's argument
        sp2 = None
        if sp is not None:
            m = re.match(r"^a(\d+)$", sp)
            if m and int(m.group(1)) - 1 < len(t["args"]):
                sp2 = ctx.expr(f, t["args"][int(m.group(1)) - 1])
            elif sp == "self":
                sp2 = ctx.expr(f, t["args"][0])
        out.append((blk, ctor, a0, sp2))
    return out


def on_every_path(f, blk):
    """block `blk` lies on every path from entry to a normal return"""
    rets = [b for b in f.normal_blocks() if f.term(b)["k"] == "return"]
    return bool(rets) and all(f.dominates(blk, r) for r in rets)


def run(ctx):
    core = ctx.core("on")
    # "at least one, and all violated rules": no error of the options layer is thrown away on the way
    # (dropped values, discarding adapters, a Result used as an iterator)
    from vlib import scan as _scan
    opt_bodies = [b for b in ctx.all_bodies(core) if "/options/" in b.file and not _scan.is_test_body(b) and not b.derived]
    common.error_discipline(ctx, "C10.D", opt_bodies)
    for chain, opts in CHAINS.items():
        f = ctx.fn(PN % chain)
        if not f:
            continue
        errs = errors_of(ctx, f)
        pcs = {blk: ctx.pc_strs(f, blk) for blk, _, _, _ in errs}
        for name, (slot, guard) in opts.items():
            # the store
            stores = [(blk, st) for blk, i, st in ctx.find_field_assigns(f, slot, 1)
                      if any(ctx._sat(d, opt_atom(name, "True")) for d in ctx.pc_strs(f, blk))]
            if not stores:
                # the store written inside a closure handed to a combinator on the parsed value
                # (`T::from_meta(mi).map(|v| self.slot = v)`): counted at the place the closure is built
                sites = ctx.closure_sites(f)
                caps = {}
                for b_, i_, st_ in f.stmts():
                    if st_["k"] == "assign" and st_["r"]["k"] == "aggregate" and st_["r"].get("agg") == "closure":
                        caps[st_["r"]["closure"]] = [ctx.expr(f, o_) for o_ in st_["r"]["ops"]]
                for c in ctx.closures_of(f):
                    writes_slot = bool(ctx.find_field_assigns(c, slot)) or \
                        (("self.%s" % slot) in caps.get(c.key, []) and any(st_["k"] == "assign" and st_["p"]["proj"] and st_["p"]["proj"][0]["k"] == "deref" for _, _, st_ in c.stmts()))
                    if writes_slot and c.key in sites and any(ctx._sat(d, opt_atom(name, "True")) for d in ctx.pc_strs(f, sites[c.key])):
                        stores.append((sites[c.key], None))
            ctx.ob("C10.G.option-stored", f.key, "option `%s` -> self.%s" % (name, slot), len(stores) >= 1, "%d stores under is_ident(\"%s\")" % (len(stores), name))
            if guard:
                for blk, st in stores:
                    ds = [d for d in ctx.pc_strs(f, blk) if ctx._sat(d, opt_atom(name, "True"))]
                    ok = bool(ds) and all(ctx._sat(d, guard + "=False") for d in ds)
                    ctx.ob("C10.G.duplicate-guard", f.key, "store of `%s`" % name, ok, "the store must be dominated by %s=False; found %s" % (guard, [sorted(a for a in d if "is_some" in a or "is_present" in a) for d in ds]))
                dup = [e for e in errs if any(ctx._sat(d, opt_atom(name, "True")) and ctx._sat(d, guard + "=True") for d in pcs[e[0]]) and e[1].startswith("duplicate_field")]
                ctx.ob("C10.G.duplicate-error", f.key, "repeated `%s`" % name, len(dup) >= 1, "an error must be built under %s=True" % guard)
                for e in dup:
                    ctx.ob("C10.G.error-spanned", f.key, "duplicate `%s`" % name, e[3] is not None and ("a2" in e[3] or "path(a2)" in e[3]), "with_span(%s)" % e[3])
        # unknown option exit / delegation
        ft = FALLTHROUGH[chain]
        names = sorted(opts)
        if ft == "error":
            unk = [e for e in errs if e[1].startswith("unknown_field") and all(all(("=False" in a) for a in d if OPT_TEST.search(a)) and (sum(1 for a in d if OPT_TEST.search(a)) >= len(names) or any(re.search(r"^is_some\(.*get_ident\(.*\)=False$", a) for a in d)) for d in pcs[e[0]])]
            ctx.ob("C10.G.unknown-option-rejected", f.key, "name none of %s" % names, len(unk) == 1, "an unknown_field error must be built when every is_ident test fails")
            for e in unk:
                ctx.ob("C10.G.error-spanned", f.key, "unknown option", e[3] is not None and "a2" in e[3], "with_span(%s)" % e[3])
        else:
            calls = ctx.find_calls(f, "^" + re.escape(ft) + "$")
            ok = len(calls) == 1
            if ok:
                blk, t = calls[0]
                d = ctx.pc_strs(f, blk)
                ok = all(all("=False" in a for a in x if OPT_TEST.search(a)) and (sum(1 for a in x if OPT_TEST.search(a)) >= len(names) or any(re.search(r"^is_some\(.*get_ident\(.*\)=False$", a) for a in x)) for x in d) and ctx.expr(f, t["args"][1]) == "a2"
            ctx.ob("C10.G.unknown-option-delegated", f.key, "name none of %s" % names, ok, "must delegate the same item to %s" % ft.split(" as ")[0][1:])
    for chain, ft in FALLTHROUGH.items():
        if chain in CHAINS:
            continue
        f = ctx.fn(PN % chain)
        if f:
            rs = ctx.ret_values(f)
            ctx.ob("C10.G.unknown-option-delegated", f.key, "all names", len(rs) == 1 and rs[0].startswith(ft + "(") and rs[0].endswith(", a2)"), "returns %s" % rs)

    # ------------------------------------------------------------ conflict matrix (field options)
    f = ctx.fn(PN % "input_field::InputField")
    if f:
        errs = errors_of(ctx, f)
        for name, set_atom in FLATTEN_CONFLICTS.items():
            a = [e for e in errs if e[1] == "custom" and any(ctx._sat(d, opt_atom(name, "True")) and ctx._sat(d, r"is_some\(self\.flatten\.0\)=True") for d in ev_pcs(ctx, f, e))]
            alts_ = set_atom if isinstance(set_atom, list) else [[set_atom]]
            b = [e for e in errs if e[1] == "custom" and any(ctx._sat(d, opt_atom("flatten", "True")) and any(all(ctx._sat(d, x) for x in alt_) for alt_ in alts_) for d in ev_pcs(ctx, f, e))]
            ctx.ob("C10.G.conflict-both-orders", f.key, "flatten x %s (in the `%s` branch)" % (name, name), len(a) == 1, "%d guarded errors" % len(a))
            ctx.ob("C10.G.conflict-both-orders", f.key, "flatten x %s (in the `flatten` branch)" % name, len(b) == 1, "%d guarded errors" % len(b))
            for e in a + b:
                ctx.ob("C10.G.error-spanned", f.key, "flatten x %s" % name, e[3] == "a2", "with_span(%s)" % e[3])
        # flatten-branch conflicts are accumulated, not first-wins
        # (four pushes, or one push / extend per row of a table of four conflicts)
        acc = ctx.find_calls_deep(f, r"^darling_core::error::Accumulator::push$|Extend<darling_core::error::Error>>::extend$")
        fin = ctx.find_calls(f, r"^darling_core::error::Accumulator::finish$")
        nb = len([e for e in errs if e[1] == "custom" and any(ctx._sat(d, opt_atom("flatten", "True")) for d in ev_pcs(ctx, f, e))])
        tab = [e for e in errs if getattr(e, "pcs", None) is not None]
        ok = len(fin) == 1 and nb == 4 and (len(acc) == 4 or (len(acc) == 1 and len(tab) == 4))
        ctx.ob("C10.G.flatten-conflicts-accumulate", f.key, "conflicts.push x4, finish()?", ok, "%d recording calls for %d conflict errors (%d from a table), %d finish" % (len(acc), nb, len(tab), len(fin)))
    for chain in ("core::Core", "input_field::InputField"):
        f = ctx.fn(PN % chain)
        if f:
            errs = errors_of(ctx, f)
            ex = [e for e in errs if e[1] == "custom" and any((ctx._sat(d, opt_atom("map", "True")) or ctx._sat(d, opt_atom("and_then", "True"))) and ctx._sat(d, r"is_some\(self\.post_transform\)=True") for d in ctx.pc_strs(f, e[0]))]
            ctx.ob("C10.G.map-and-then-exclusive", f.key, "map x and_then", len(ex) == 1, "%d guarded errors" % len(ex))
            for e in ex:
                ctx.ob("C10.G.error-spanned", f.key, "map x and_then", e[3] == "a2", "with_span(%s)" % e[3])
    f = ctx.fn(PN % "input_variant::InputVariant")
    if f:
        errs = errors_of(ctx, f)
        w = [e for e in errs if any(ctx._sat(d, opt_atom("word", "True")) and ctx._sat(d, ("ne", r"^discr\(self\.data\.style\)$", "Unit")) for d in ctx.pc_strs(f, e[0]))]
        ctx.ob("C10.G.word-only-on-unit", f.key, "word on a non-unit variant", len(w) == 1, "%d guarded errors" % len(w))
        for blk, i, st in ctx.find_field_assigns(f, "word", 1):
            ctx.requires("C10.G.word-only-on-unit", f, blk, "store of `word`", [r"^discr\(self\.data\.style\)=Unit$"])

    # ------------------------------------------------------------ body rules
    vb = "<darling_core::options::%s as darling_core::options::ParseData>::validate_body"
    f = ctx.fn(vb % "core::Core")
    if f:
        # (the push may stand in a loop, in a for_each closure, or be mapped into `extend`)
        p = [(o, [x for x, y in o.calls() if y is t_][0], t_) for _, t_, o in ctx.find_calls_deep(f, r"Accumulator::push$")]
        ext = ctx.find_calls(f, r"Extend<darling_core::error::Error>>::extend$")
        ok = len(p) == 1
        if ok:
            d = ctx.pc_strs(p[0][0], p[0][1])
            ok = bool(d) and all(ctx._sat(x, r"Gt\(len\(.*\), 1_usize\)=True") for x in d)
        elif not p and len(ext) == 1:
            d = ctx.pc_strs(f, ext[0][0])
            ok = bool(d) and all(ctx._sat(x, r"Gt\(len\(.*\), 1_usize\)=True") for x in d)
        ctx.ob("C10.G.single-flatten", f.key, "more than one flatten field", ok, "one error per flatten field under len > 1")
        if p or ext:
            if p:
                e = ctx.expr(p[0][0], p[0][2]["args"][1])
            else:
                # the errors handed to extend: built by the closure of the map in front of it
                e = ""
                for c in ctx._closures_deep(f):
                    for _, t_ in ctx.find_calls(c, r"^darling_core::error::Error::with_span$"):
                        e = ctx.expr(c, {"k": "copy", "p": t_["dest"]}) if False else "darling_core::error::Error::with_span(" + ctx.expr(c, t_["args"][0]) + ", " + ctx.expr(c, t_["args"][1]) + ")"
            ctx.ob("C10.G.error-spanned", f.key, "flatten", e.startswith("darling_core::error::Error::with_span(") and "Flag::span(" in e, e[:160])
    f = ctx.fn(vb % "from_meta::FromMetaOptions")
    if f:
        # one entry per (push, error value): a push whose message was chosen by an earlier test
        # counts once per message, under the conditions of that choice
        from vlib import resalg
        pushes = []
        for blk, t in ctx.find_calls(f, r"Accumulator::push$"):
            byval = {}
            for conds, val in resalg.site_cases(ctx, f, blk, t["args"][1]):
                byval.setdefault(val, []).append(set(conds))
            for val, ds in byval.items():
                pushes.append((blk, val, ds))
        # `errors.extend(items.into_iter().map(|x| Error::..))`: one recorded error per item
        for blk, t in ctx.find_calls(f, r"Extend<darling_core::error::Error>>::extend$"):
            val = ctx.expr(f, t["args"][1])
            for c in ctx._closures_deep(f):
                if c.key in val:
                    for v_ in ctx.ret_values(c):
                        if "darling_core::error::Error::" in v_:
                            val = v_
            pushes.append((blk, val, [set(d) for d in ctx.pc_strs(f, blk)]))

        def has(*rx):
            return [p for p in pushes if p[2] and all(all(ctx._sat(d, r) for r in rx) for d in p[2])]
        ctx.ob("C10.G.from-word-on-unit", f.key, "from_word on a unit struct", len(has(r"discr\(self\.base\.data\)=Struct", r"is_some\(self\.from_word\)=True", r"discr\(.*\.style\)=Unit$")) == 1, "guarded error")
        ctx.ob("C10.G.from-word-on-newtype", f.key, "from_word on a newtype struct", len(has(r"discr\(self\.base\.data\)=Struct", r"is_some\(self\.from_word\)=True", r"is_newtype\(.*\)=True")) == 1, "guarded error")
        ctx.ob("C10.G.word-with-from-word", f.key, "word + from_word", len(has(r"discr\(self\.base\.data\)=Enum", r"is_some\(self\.from_word\)=True", ("ne", r"^len\(.*\)$", 0))) == 1, "guarded error")
        ctx.ob("C10.G.single-word", f.key, "more than one word variant", len(has(r"discr\(self\.base\.data\)=Enum", r"Gt\(len\(.*\), 1_usize\)=True")) == 1, "guarded error")
        for blk, e, pc in pushes:
            ctx.ob("C10.G.error-spanned", f.key, "body rule", e.startswith("darling_core::error::Error::with_span("), e[:120])
        # the word rules count every variant that carries a `word` annotation
        fms = ctx.find_calls(f, r"Iterator>::filter_map|Iterator::filter_map")
        okw = len(fms) == 1 and re.match(r"^core::slice::<impl \[T\]>::iter\(\(self\.base\.data as Enum\)\.0\)$", ctx.expr(f, fms[0][1]["args"][0])) is not None
        cl_ = [c for c in ctx.closures_of(f) if [(e_, ctx.pc_strs(c, b_, own=True)) for b_, e_ in ctx.ret_exprs(c)] == [("a2.word", [set()])]]
        # the same collection written as a loop: one push per variant, selected by the presence of
        # the annotation and by nothing else about it
        lp = [h for h in ctx.per_element(f, r"Vec::<.*>::push$") if h["form"] == "loop" and re.search(r"\(self\.base\.data as Enum\)\.0\)*$", h["source"])]
        okl = False
        if not fms and len(lp) == 1:
            ds = ctx.pc_strs(f, lp[0]["blk"])
            val = ctx.expr(f, lp[0]["t"]["args"][1])
            okl = bool(ds) and re.search(r"\.word as Some\)\.0$|\.word$", val) is not None
            for d in ds:
                about = [a_ for a_ in d if ".word" in a_]
                okl = okl and len(about) == 1 and re.search(r"^is_some\(.*\.word\)=True$", about[0]) is not None
        ctx.ob("C10.G.word-rules-over-all-variants", f.key, "word_variants = data.iter().filter_map(|v| v.word.as_ref())", (okw and len(cl_) == 1) or okl,
               "the `word` rules must see every variant that carries the annotation: source %s, selecting closures %d" % ([ctx.expr(f, t_["args"][0])[:120] for _, t_ in fms], len(cl_)))
        base = ctx.find_calls(f, "^" + re.escape(vb % "core::Core") + "$")
        ctx.ob("C10.P.body-rules-chain", f.key, "base.validate_body(errors)", len(base) == 1 and on_every_path(f, base[0][0]), "the single-flatten rule must run for FromMeta receivers too, on every path")
    f = ctx.fn(vb % "outer_from::OuterFrom")
    if f:
        # one entry per (push, error value): a push whose message was chosen by an earlier test
        # counts once per message, under the conditions of that choice
        from vlib import resalg
        pushes = []
        for blk, t in ctx.find_calls(f, r"Accumulator::push$"):
            byval = {}
            for conds, val in resalg.site_cases(ctx, f, blk, t["args"][1]):
                byval.setdefault(val, []).append(set(conds))
            for val, ds in byval.items():
                pushes.append((blk, val, ds))
        ok = len({p[0] for p in pushes}) == 1 and all(ctx._sat(d, r"is_some\(self\.attrs\)=True") and ctx._sat(d, r"is_some\(self\.forward_attrs\)=False") for p in pushes for d in p[2])
        ctx.ob("C10.G.attrs-needs-forward-attrs", f.key, "`attrs` field without forward_attrs", ok, "guarded error")
        for blk, e, pc in pushes:
            ctx.ob("C10.G.error-spanned", f.key, "attrs", e.startswith("darling_core::error::Error::with_span(") and "attrs as Some).0.ident" in e, e[:160])
        base = ctx.find_calls(f, "^" + re.escape(vb % "core::Core") + "$")
        ctx.ob("C10.P.body-rules-chain", f.key, "container.validate_body(errors)", len(base) == 1 and on_every_path(f, base[0][0]), "the container's body rules (single flatten field, …) must run on every path, whatever the forward_attrs/attrs checks decide")
    for chain in ("from_derive::FdiOptions", "from_variant::FromVariantOptions", "from_attributes::FromAttributesOptions", "from_field::FromFieldOptions", "from_type_param::FromTypeParamOptions"):
        f = ctx.fn(vb % chain, required=False)
        if f:
            base = ctx.find_calls(f, "^" + re.escape(vb % "outer_from::OuterFrom") + "$")
            ctx.ob("C10.P.body-rules-chain", f.key, "base.validate_body(errors)", len(base) == 1 and on_every_path(f, base[0][0]), "element-level options must run OuterFrom's body rules on every path")
    # the trait default of validate_body is a no-op: every options type must override it (else the body rules never run)
    for chain in ("core::Core", "outer_from::OuterFrom", "from_meta::FromMetaOptions", "from_derive::FdiOptions", "from_variant::FromVariantOptions",
                  "from_attributes::FromAttributesOptions", "from_field::FromFieldOptions", "from_type_param::FromTypeParamOptions"):
        imp = [i for i in core["impls"] if i["trait"] == "darling_core::options::ParseData" and i["self"] == "darling_core::options::" + chain]
        ctx.ob("C10.S.validate-body-overridden", "<darling_core::options::%s as ParseData>" % chain, "overrides validate_body", len(imp) == 1 and "validate_body" in imp[0]["items"],
               "ParseData items: %s (the default validate_body is a no-op, so the single-flatten / attrs-needs-forward_attrs rules would never run for this derive)" % [i["items"] for i in imp])
    f = ctx.fn("darling_core::options::ParseData::parse_body")
    if f:
        v = ctx.find_calls(f, r"ParseData>::validate_body$")
        fw = ctx.find_calls(f, r"Accumulator::finish_with")
        ok = len(v) == 1 and len(fw) == 1 and f.dominates(v[0][0], fw[0][0])
        ctx.ob("C10.P.body-rules-run", f.key, "validate_body before finish_with", ok, "body rules must run on every path that finishes the body walk")
    f = ctx.fn(O + "from_attributes::FromAttributesOptions::new")
    if f:
        errs = errors_of(ctx, f)
        ok = [e for e in errs if e[1] == "custom" and all((ctx._sat(d, r"is_newtype\(.*\)=False") or ctx._sat(d, ("ne", r"^discr\(.*\.data\)$", "Struct"))) and ctx._sat(d, r"^len\(.*attr_names.*\)=0$") for d in ctx.pc_strs(f, e[0]))]
        ctx.ob("C10.G.from-attributes-needs-names", f.key, "FromAttributes without attributes(..)", len(ok) == 1, "guarded error")
    f = ctx.fn(O + "shape::DataShape::set_word")
    if f:
        errs = ctx.find_calls(f, r"^darling_core::error::Error::unknown_value$")
        ctx.ob("C10.G.unknown-shape-word", f.key, "unknown shape word", len(errs) == 1, "%d" % len(errs))
    f = ctx.fn("<darling_core::options::shape::DeriveInputShapeSet as darling_core::from_meta::FromMeta>::from_list")
    if f:
        errs = ctx.find_calls(f, r"^darling_core::error::Error::unknown_value$")
        ok = len(errs) == 1 and all(ctx._sat(d, r"starts_with.*\"enum_\"\)=False") and ctx._sat(d, r"starts_with.*\"struct_\"\)=False") for d in ctx.pc_strs(f, errs[0][0]))
        ctx.ob("C10.G.unknown-shape-word", f.key, "word without a known prefix", ok, "guarded error")
    for m in ("parse_variant", "parse_field"):
        f = ctx.fn(O + "ParseData::" + m)
        if f:
            rs = ctx.ret_values(f)
            ok = len(rs) == 1 and rs[0].startswith("core::result::Result::Err{darling_core::error::Error::with_span(darling_core::error::Error::unsupported_format(")
            ctx.ob("C10.G.unrepresentable-body", f.key, "default %s rejects" % m, ok, "returns %s" % [r[:120] for r in rs])
    # FromMeta: multi-field tuple bodies must be rejected by validation (F2)
    f = ctx.fn(vb % "from_meta::FromMetaOptions")
    if f:
        mentions_tuple = any(re.search(r"is_tuple|Style::Tuple|discr\(.*style\)=Tuple", a) for blk, t in ctx.find_calls(f, r"Accumulator::push$") for d in ctx.pc_strs(f, blk) for a in d)
        ctx.ob("C10.G.multi-field-tuple-rejected", f.key, "multi-field tuple struct / variant for FromMeta", mentions_tuple,
               "F2: no validation rule rejects a tuple body with several fields; the generator panics instead (see C06)")
    if ctx.tier == "thorough":
        from . import witness
        witness.run_witnesses(ctx, "C10")
    return ctx.finish(
        explanation="Duplicate guards, symmetric conflict matrix, unknown-option exits and delegation over %d option chains; existence and spans of the body rules." % len(FALLTHROUGH),
        assumptions=["the `iff` over all declarations is not decided; the rules decided are the documented ones"],
    )

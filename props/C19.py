"""C19 – generic-parameter usage analysis is exact and drives exactly the needed bounds.

Decided: visitor completeness (V) of every `UsesTypeParams` / `UsesLifetimes` impl over a syn
type against the type-containment graph of syn's own ADT definitions (F11), exhaustiveness of
the wildcard switches (E, F4), agreement of the two sibling modules (S), the leading-segment
guard and the qself/purpose guard (G), union over collections (P), the bound computation
(`compute_impl_bounds` pushes only onto matching type parameters, `used_type_params` filters
skipped fields and variants, `wrap` repeats the receiver's generics from one split_for_impl).
Thorough: compile-fail witness that a result element not borrowed from the queried set does not
type-check.  Not decided: exactness for all types as a value statement beyond completeness+guards."""
import re

from vlib import mir, scan, tpl, sym, resalg
from . import common

META = dict(
    level="completeness of the structural recursion against syn's ADT definitions (all fields/variants that can contain a type or lifetime are visited or exempted with a reason), guards of the leading-segment and qself rules, and the bound computation are decided on all paths",
    technique="static analysis: visitor-completeness over the type-containment graph of cross-crate AdtDefs, exhaustive-switch rule, path-condition guards",
)
TP = ("darling_core::usage::type_params::UsesTypeParams", "uses_type_params", "syn::ty::Type", "types")
LT = ("darling_core::usage::lifetimes::UsesLifetimes", "uses_lifetimes", "syn::lifetime::Lifetime", "lifetimes")

# (adt, field-or-variant) -> reason; "*" = both walks, else the walk name
EXEMPT = {
    ("*", "attrs"): ("*", "attribute position: tokens of attributes are not type positions of the item"),
    ("syn::data::Field", "vis"): ("*", "visibility path is a module path without generic arguments"),
    ("syn::data::Field", "mutability"): ("*", "no sub-terms"),
    ("syn::ty::TypeArray", "len"): ("*", "const-expression position (excluded by the property)"),
    ("syn::data::Variant", "discriminant"): ("*", "const-expression position"),
    ("syn::path::GenericArgument", "Const"): ("*", "const-expression position"),
    ("syn::path::GenericArgument", "AssocConst"): ("*", "const-expression position"),
    ("syn::ty::Type", "Macro"): ("*", "opaque macro tokens"),
    ("syn::ty::Type", "Verbatim"): ("*", "opaque tokens"),
    ("syn::ty::Type", "Infer"): ("*", "no sub-terms"),
    ("syn::ty::Type", "Never"): ("*", "no sub-terms"),
    ("syn::ty::TypeBareFn", "lifetimes"): ("types", "binder: declares lifetimes, cannot use a type parameter"),
    ("syn::generics::TraitBound", "lifetimes"): ("types", "binder: declares lifetimes"),
    ("syn::generics::PredicateType", "lifetimes"): ("types", "binder: declares lifetimes"),
    ("syn::ty::TypeBareFn", "lifetimes#lt"): ("lifetimes", "binder: declares, does not use"),
    ("syn::generics::TraitBound", "lifetimes#lt"): ("lifetimes", "binder: declares, does not use"),
    ("syn::generics::PredicateType", "lifetimes#lt"): ("lifetimes", "binder: declares, does not use"),
    ("syn::ty::TypeBareFn", "abi"): ("*", "string literal"),
    ("syn::ty::TypeBareFn", "variadic"): ("*", "`...` carries only attributes and an optional name"),
    ("syn::path::QSelf", "position"): ("*", "integer"),
    ("syn::generics::TypeParam", "default"): ("lifetimes", "declaration position, outside the property's scope"),
    ("syn::generics::ConstParam", "default"): ("*", "const-expression position"),
    ("syn::path::GenericArgument", "Type#lt"): ("", ""),
}
FINDINGS = {
    ("syn::path::AssocType", "generics"): "F11",
    ("syn::path::Constraint", "generics"): "F11",
}


def reach_sets(adts, target):
    """ADT paths from which `target` is reachable in the containment graph (field type mentions)."""
    edges = {}
    for p, a in adts.items():
        outs = set()
        for v in a["variants"]:
            for f in v["fields"]:
                for m in f["mentions"]:
                    outs.add(m)
        edges[p] = outs
    reach = {target}
    changed = True
    while changed:
        changed = False
        for p, outs in edges.items():
            if p not in reach and outs & reach:
                reach.add(p)
                changed = True
    return reach


def field_reaches(f, reach):
    return any(m in reach for m in f["mentions"])


def projected(body):
    """(fields of self projected, variants of self downcast) anywhere in the body and its operands."""
    fields, variants = set(), set()

    def visit(p):
        if p["local"] != 1:
            return
        pr = [e for e in p["proj"] if e["k"] != "deref"]
        if not pr:
            return
        if pr[0]["k"] == "field":
            fields.add(pr[0]["name"])
        if pr[0]["k"] == "downcast":
            variants.add(pr[0]["variant"])
    for blk, i, st in body.stmts():
        if "p" in st:
            visit(st["p"])
        r = st.get("r", {})
        for key in ("p",):
            if key in r:
                visit(r[key])
        for key in ("op", "a", "b"):
            o = r.get(key)
            if isinstance(o, dict) and o.get("k") in ("copy", "move"):
                visit(o["p"])
        for o in r.get("ops", []) or []:
            if o.get("k") in ("copy", "move"):
                visit(o["p"])
    for blk, t in body.calls():
        for a in t["args"]:
            if a["k"] in ("copy", "move"):
                visit(a["p"])
    return fields, variants


def visitor_rule(ctx, core, walk):
    trait, method, target, wname = walk
    adts = {a["path"]: a for a in core["adts"]}
    if target not in adts:
        ctx.anchor_missing("C19.V", target, "ADT definition missing from facts")
        return 0
    reach = reach_sets(adts, target)
    n = 0
    for imp in core["impls"]:
        if imp["trait"] != trait:
            continue
        x = imp["self"]
        base = re.sub(r"<.*$", "", x)
        if not base.startswith("syn::") or base not in adts:
            continue
        f = ctx.fn("<%s as %s>::%s" % (x, trait, method), required=False)
        if not f:
            continue
        n += 1
        a = adts[base]
        bodies = [f] + ctx.closures_of(f)
        flds, vars_ = set(), set()
        for b in bodies:
            fs, vs = projected(b)
            flds |= fs
            vars_ |= vs
        if a["kind"] == "struct":
            for fl in a["variants"][0]["fields"]:
                if not field_reaches(fl, reach):
                    continue
                name = fl["name"]
                ex = EXEMPT.get((base, name)) or EXEMPT.get(("*", name))
                if wname == "lifetimes":
                    ex = EXEMPT.get((base, name + "#lt")) or (ex if ex and ex[0] in ("*", "lifetimes") else None)
                elif ex and ex[0] not in ("*", "types"):
                    ex = None
                visited = name in flds
                ev = "%s.%s" % (base.rsplit("::", 1)[-1], name)
                if visited:
                    ctx.ob("C19.V.%s.field-visited" % wname, f.key, ev, True, "projected from self and walked")
                elif ex:
                    ctx.ob("C19.V.%s.field-exempt" % wname, f.key, ev, True, ex[1])
                else:
                    fid = FINDINGS.get((base, name))
                    ctx.ob("C19.V.%s.field-visited" % wname, f.key, ev, False,
                           "%sfield `%s: %s` can contain a %s but is never read by the walk" % ((fid + ": ") if fid else "", name, fl["ty"][:80], "type" if wname == "types" else "lifetime"))
        elif a["kind"] == "enum":
            listed = set()
            for blk in sorted(f.normal_blocks()):
                sv = scan.switch_variants(f, blk)
                if sv and sv[0] == base:
                    listed |= set(sv[2])
            for v in a["variants"]:
                if not any(field_reaches(fl, reach) for fl in v["fields"]):
                    continue
                name = v["name"]
                ex = EXEMPT.get((base, name))
                if ex and ex[0] not in ("*", wname):
                    ex = None
                ev = "%s::%s" % (base.rsplit("::", 1)[-1], name)
                if name in vars_:
                    ctx.ob("C19.V.%s.variant-visited" % wname, f.key, ev, True, "payload walked")
                elif ex:
                    ctx.ob("C19.V.%s.variant-exempt" % wname, f.key, ev, True, ex[1])
                elif name not in listed:
                    # reaches the wildcard: reported by the E rule
                    continue
                else:
                    ctx.ob("C19.V.%s.variant-visited" % wname, f.key, ev, False, "variant payload can contain a %s but the arm ignores it" % wname[:-1])
    return n


UNION_RX = r"usage::type_params::union_in_place$|Extend<.*>>::extend$"


def run(ctx):
    core = ctx.core("on")
    n1 = visitor_rule(ctx, core, TP)
    n2 = visitor_rule(ctx, core, LT)
    ctx.floor("C19.V.types", "UsesTypeParams impls over syn ADTs", n1, 30)
    ctx.floor("C19.V.lifetimes", "UsesLifetimes impls over syn ADTs", n2, 30)
    # E: wildcard switches
    bodies = [b for b in ctx.all_bodies(core) if "/usage/" in b.file and not scan.is_test_body(b)]
    n_e = common.exhaustive_wildcards(ctx, "C19.E.wildcard", bodies)
    ctx.floor("C19.E", "wildcard switches in usage/", n_e, 8)
    # S: sibling modules implement the walk for the same set of types
    s1 = sorted(i["self"] for i in core["impls"] if i["trait"] == TP[0])
    s2 = sorted(i["self"] for i in core["impls"] if i["trait"] == LT[0])
    only1 = sorted(set(s1) - set(s2))
    only2 = sorted(set(s2) - set(s1))
    # type-only: the unit, the ident lookup and the two codegen wrappers used for bound computation;
    # lifetime-only: lifetime-bearing nodes and generic-parameter declarations (used by darling::ast::Generics)
    ok = set(only1) <= {"()", "proc_macro2::Ident", "darling_core::codegen::field::Field<'_>", "darling_core::codegen::variant::Variant<'_>"} and \
        set(only2) <= {"syn::lifetime::Lifetime", "syn::generics::PredicateLifetime", "syn::generics::LifetimeParam", "syn::generics::BoundLifetimes",
                       "syn::generics::ConstParam", "syn::generics::GenericParam", "syn::generics::TypeParam", "syn::path::PathSegment"}
    ctx.ob("C19.S.sibling-walks-cover-same-types", "usage::{type_params, lifetimes}", "impl sets", ok, "only in type_params: %s; only in lifetimes: %s" % (only1, only2))
    # G: leading segment
    f = ctx.fn("<syn::path::Path as %s>::%s" % (TP[0], TP[1]))
    if f:
        idc = [(b, t) for b, t in ctx.find_calls(f, r"^<proc_macro2::Ident as darling_core::usage::type_params::UsesTypeParams>::uses_type_params$")]
        ctx.ob("C19.G.ident-hit-shape", f.key, "one ident lookup", len(idc) == 1, "%d" % len(idc))
        for b, t in idc:
            ctx.requires("C19.G.leading-segment-only-if-not-global", f, b, "segments[0].ident lookup", [r"is_some\(self\.leading_colon\)=False", ("ne", r"^len\(self\.segments\)$", 0)])
            a0 = ctx.expr(f, t["args"][0])
            ctx.ob("C19.G.first-segment", f.key, "segment index", re.search(r"^self\.segments\[0\]\.ident$", a0) is not None, a0[:120])
        # every segment's generic arguments are walked and united into the result: a fold over the
        # segments or a `for` loop over them; the union step is union_in_place(acc, x) or acc.extend(x)
        un = [h for h in ctx.per_element(f, UNION_RX) if re.search(r"PathArguments as darling_core::usage::type_params::UsesTypeParams>::uses_type_params\(", ctx.expr(h["owner"], h["t"]["args"][1]))]
        ok = len(un) == 1 and un[0]["form"] in ("adapter", "loop") and "self.segments" in un[0]["source"] and ".arguments" in ctx.expr(un[0]["owner"], un[0]["t"]["args"][1])
        ctx.ob("C19.P.arguments-of-every-segment", f.key, "segments.iter().fold(.., arguments walk)", ok, "%s" % [(h["form"], h["source"][:100]) for h in un])
        # must-pass-through: the only return that may bypass the argument walk is the empty-path one
        walk = ctx.find_calls(f, r"Iterator>::fold|Iterator::fold") or [(b_, t_) for b_, t_ in ctx.find_calls(f, r"IntoIterator(>)?::into_iter$|Punctuated::<T, P>::iter$") if "self.segments" in ctx.expr(f, t_["args"][0])]
        if walk:
            avoid = {walk[0][0]}
            reach = f.reachable(0, False, avoid=avoid)
            bypass = []
            for d0 in f.defs().get(0, []):
                blk = d0[0]
                if f.is_cleanup(blk) or blk not in reach or blk == walk[0][0]:
                    continue
                ds = ctx.pc_strs(f, blk)
                if not (ds and all(ctx._sat(d, r"^len\(self\.segments\)=0$") for d in ds)):
                    bypass.append((blk, [sorted(d) for d in ds]))
            ctx.ob("C19.P.no-return-bypasses-argument-walk", f.key, "returns that skip the segment-argument walk", not bypass,
                   "a result is returned without walking the generic arguments of the segments under %s" % bypass)
    f = ctx.fn("<proc_macro2::Ident as %s>::%s" % (TP[0], TP[1]))
    if f:
        rs = ctx.ret_values(f)
        ok = len(rs) == 1 and "collect(" in rs[0] and "filter(" in rs[0] and "iter(a3)" in rs[0].replace("std::collections::hash::set::HashSet::<T, S>::", "")
        ctx.ob("C19.G.result-drawn-from-queried-set", f.key, "type_set.iter().filter(..).collect()", ok, "%s" % [r[:200] for r in rs])
    # qself only for Declare
    f = ctx.fn("<syn::ty::TypePath as %s>::%s" % (TP[0], TP[1]))
    if f:
        q = [(b, t) for b, t in f.calls() if "QSelf" in (mir.callee_info(t) or {}).get("resolved_with_args", "") or "QSelf" in ((mir.callee_info(t) or {}).get("self_ty") or "")]
        ctx.ob("C19.G.qself-shape", f.key, "one qself walk", len(q) == 1, "%d" % len(q))
        for b, t in q:
            ctx.requires("C19.G.qself-only-when-asked", f, b, "self.qself walk", [r"^discr\(a2\.purpose\)=Declare$"])
    f = ctx.fn("darling_core::usage::options::Options::include_type_path_qself")
    if f:
        rs = ctx.true_conditions(f)
        ctx.ob("C19.G.qself-iff-declare", f.key, "self.purpose == Purpose::Declare", rs == [{"discr(self.purpose)=Declare"}], "true under %s" % rs)
    # union over collections
    for key in ("darling_core::usage::type_params::<impl darling_core::usage::type_params::CollectTypeParams for T>::collect_type_params",):
        cands = ctx.fns_matching(r"^<T as darling_core::usage::type_params::CollectTypeParams>::collect_type_params$")
        f = cands[0] if cands else None
        if f:
            # every member is walked and its answer united into the result: as a fold over the
            # members or as a `for` loop over them
            un = [h for h in ctx.per_element(f, UNION_RX)]
            ok = len(un) == 1
            why = "%d union steps" % len(un)
            if ok:
                h = un[0]
                walked = ctx.expr(h["owner"], h["t"]["args"][1])
                src = h["source"].replace("IntoIterator>::into_iter", "into_iter").replace("IntoIterator::into_iter", "into_iter")
                ok = re.search(r"UsesTypeParams(>)?::uses_type_params\(", walked) is not None and h["form"] in ("adapter", "loop") and "into_iter(self)" in src
                why = "%s form: union(%s) over %s" % (h["form"], walked[:80], src[:80])
            ctx.ob("C19.P.union-over-members", f.key, "result = union over members of member.walk()", ok, why)
        else:
            ctx.anchor_missing("C19.P.union-over-members", key, "not found")
    f = ctx.fn("darling_core::usage::type_params::union_in_place", required=False)
    if f:
        ext = ctx.find_calls(f, r"Extend<.*>>::extend")
        rs = ctx.ret_values(f)
        ctx.ob("C19.P.union-in-place", f.key, "left.extend(right); left", len(ext) == 1 and rs == ["a1"], "%s" % rs)
    # ---------------------------------------------------------------- bounds
    f = ctx.fn("darling_core::codegen::outer_from_impl::compute_impl_bounds")
    if f:
        # the push may stand in a loop, or in a closure handed to for_each; the parameters it
        # reaches may be selected by `if` tests around it or by filter / filter_map adapters in front
        pushes = ctx.find_calls_deep(f, r"Punctuated::<T, P>::push$")
        ctx.ob("C19.G.bound-push-shape", f.key, "one push", len(pushes) == 1, "%d" % len(pushes))
        keep = []
        typed_source = bool(ctx.find_calls(f, r"^syn::generics::Generics::type_params_mut$"))
        s_f, _ = ctx.sym(f)
        for _, t2 in ctx.find_calls(f, r"Iterator(>)?::(filter|filter_map)$"):
            cl = sym.strip_transparent(s_f.operand(t2["args"][1]))
            cb = resalg._closure_body(f.crate, cl[1]) if cl[0] == "closure" else None
            if cb is None:
                continue
            if mir.callee_of(t2).endswith("::filter"):
                keep.append([set(d) for d in ctx.true_conditions(cb)])
            else:
                keep.append([set(c) for c, v in resalg.cases(ctx, cb) if v.startswith("core::option::Option::Some{")])
        for _, t, owner in pushes:
            b = [b_ for b_, t_ in owner.calls() if t_ is t][0]
            combos = [set(d) for d in ctx.pc_strs(owner, b, own=(owner is not f))] or [set()]
            for dnf in keep:
                combos = [c | d for c in combos for d in dnf]
            ok = bool(combos) and all((typed_source or ctx._sat(d, r"discr\(.*\)=Type$")) and ctx._sat(d, r"HashSet::<T, S(, A)?>::contains\((a3|applies_to|\(?\*?_1[^,]*), .*\.ident\)=True") for d in combos)
            ctx.ob("C19.G.bound-only-on-used-type-params", f.key, "typ.bounds.push(bound)", ok, "pushed under %s" % [sorted(d) for d in combos][:4])
            tgt = ctx.expr(owner, t["args"][0])
            ctx.ob("C19.G.bound-pushed-on-that-param", f.key, "target", tgt.endswith(".bounds") and (typed_source or "as Type).0.bounds" in tgt or bool(keep)), tgt[:140])
        rs = ctx.ret_values(f)
        ctx.ob("C19.G.generics-otherwise-unchanged", f.key, "return generics", rs == ["a2"] or all(e == "a2" for e in rs), "%s" % rs)
    f = ctx.fn("darling_core::codegen::trait_impl::TraitImpl::<'a>::used_type_params")
    if f:
        cl = common.callable_args_conditions(ctx, f, r"TraitImpl::<'a>::type_params_matching$", (1, 2)) or []
        ok = len(cl) == 2 and all(p == [{"elem.skip=False"}] for p in cl)
        if not cl:
            # the filters applied inside the walk instead of handed to it: one over fields, one over variants
            sf = common.skip_filters(ctx, f)
            cl = [d for k, d in sf]
            ok = sorted(k for k, d in sf) == ["field", "variant"] and all(d == [{"elem.skip=False"}] for k, d in sf)
        ctx.ob("C19.G.skipped-fields-and-variants-ignored", f.key, "|f| !f.skip, |v| !v.skip", ok, "filters keep an element under %s" % cl)
    # every walk that feeds the bound computation goes over *fields that passed the field filter*, for
    # struct bodies and for each variant of an enum body alike (walking whole variants would count
    # their skipped fields), with the BoundImpl purpose — wherever the walk is written
    f = ctx.fn("darling_core::codegen::trait_impl::TraitImpl::<'a>::type_params_matching", required=False) or ctx.fn("darling_core::codegen::trait_impl::TraitImpl::<'a>::used_type_params")
    if f:
        walks = ctx.find_calls_deep(f, r"collect_type_params(_cloned)?$", helpers=2)
        ctx.ob("C19.G.bound-purpose", f.key, "walks found", len(walks) >= 1, "%d collect_type_params calls" % len(walks))
        for blk, t, owner in walks:
            ci = mir.callee_info(t)
            sty = ci.get("self_ty") or ci.get("fn_with_args") or ""
            ok = "core::iter::adapters::filter::Filter<" in sty and "darling_core::codegen::field::Field<" in sty and "codegen::variant::Variant<" not in sty
            ctx.ob("C19.G.bounds-walk-filtered-fields", owner.key, "collect over %s" % sty[:90], ok,
                   "the bound computation must iterate filtered fields (Filter<Iter<Field>, _>); it iterates %s" % sty[:200])
            purpose = ctx.expr(owner, t["args"][1])
            ctx.ob("C19.G.bound-purpose", owner.key, "purpose of the walk", "BoundImpl" in purpose, purpose[:120])
    f = ctx.fn("darling_core::codegen::outer_from_impl::OuterFromImpl::wrap")
    if f:
        cb = ctx.find_calls(f, r"compute_impl_bounds$")
        ok = len(cb) == 1 and re.search(r"clone\(.*base\(self\)\.generics\)$", ctx.expr(f, cb[0][1]["args"][1])) is not None and "used_type_params(" in ctx.expr(f, cb[0][1]["args"][2])
        ctx.ob("C19.G.wrap-uses-receiver-generics", f.key, "compute_impl_bounds(trait_bound(), base.generics.clone(), &used)", ok, "%s" % [[ctx.expr(f, a)[:100] for a in t["args"]] for _, t in cb])
        sp = ctx.find_calls(f, r"Generics::split_for_impl$")
        T = tpl.Templates(f)
        interps = [tk.ty for tk in T.events if tk.kind == "interp"]
        ok = len(sp) == 1 and any("ImplGenerics" in (x or "") for x in interps) and any("TypeGenerics" in (x or "") for x in interps) and any("WhereClause" in (x or "") for x in interps)
        ctx.ob("C19.H.impl-header-repeats-generics", f.key, "impl #impl_generics … #ty_generics #where_clause from one split_for_impl", ok, "%s" % interps)
    if ctx.tier == "thorough":
        from . import witness
        witness.run_witnesses(ctx, "C19")
    return ctx.finish(
        explanation="Visitor completeness of %d + %d impls against syn's AdtDefs, wildcard exhaustiveness, guards of the path/qself rules, union shape, bound computation." % (n1, n2),
        assumptions=["the type-containment graph is built from syn's field types as seen by rustc (cross-crate AdtDefs)", "exemptions are listed with one reason each in props/C19.py"],
    )

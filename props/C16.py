"""C16 – magic fields and body conversion mirror the input element faithfully.

Decided: the magic-name tables of the five element-level option structs (matched name constant =
the slot it fills, S); options → codegen impl wiring (field identity); each magic initialiser
template reads the same-named member of the input through the documented converter (H);
`Data::try_from` / `Fields::try_from` structure (E over syn::Data / syn::Fields, accumulate,
`at(ident)` only for named fields, style per field kind); `Generics` mirror; [B] provenance of
magic members in every derived element-level fn.  Not decided: token-for-token reprinting."""
import re

from vlib import resalg, mir, tpl, derived
from . import common

META = dict(
    level="name ↔ slot ↔ input-member agreement is decided for all receivers through the option tables and templates; body conversion structure on all paths; provenance per derived program",
    technique="static analysis: sibling table agreement, template IR rules, exhaustive-switch rules, provenance on derived MIR",
)
O = "darling_core::options::"
PF = "<darling_core::options::%s as darling_core::options::ParseData>::parse_field"
MAGIC = {
    "from_derive::FdiOptions": {"vis": "vis", "data": "data", "generics": "generics"},
    "outer_from::OuterFrom": {"ident": "ident", "attrs": "attrs"},
    "from_field::FromFieldOptions": {"vis": "vis", "ty": "ty"},
    "from_variant::FromVariantOptions": {"discriminant": "discriminant", "fields": "fields"},
    "from_type_param::FromTypeParamOptions": {"bounds": "bounds", "default": "default"},
}
IMPLS = {
    # impl generator -> (options type, {impl field: (options expr regex, input member in the template)})
    "from_derive_impl::FromDeriveInputImpl<'_>": ("from_derive::FdiOptions", {"ident": (r"a1\.base\.ident", "ident"), "vis": (r"a1\.vis", "vis"), "generics": (r"a1\.generics", "generics"), "data": (r"a1\.data", "data")}),
    "from_field::FromFieldImpl<'_>": ("from_field::FromFieldOptions", {"ident": (r"a1\.base\.ident", "ident"), "vis": (r"a1\.vis", "vis"), "ty": (r"a1\.ty", "ty")}),
    "from_variant_impl::FromVariantImpl<'_>": ("from_variant::FromVariantOptions", {"ident": (r"a1\.base\.ident", "ident"), "discriminant": (r"a1\.discriminant", "discriminant"), "fields": (r"a1\.fields", "fields")}),
    "from_type_param::FromTypeParamImpl<'_>": ("from_type_param::FromTypeParamOptions", {"ident": (r"a1\.base\.ident", "ident"), "bounds": (r"a1\.bounds", "bounds"), "default": (r"a1\.default", "default")}),
}
TEMPLATE_SHAPE = {
    "ident": r"^⟨proc_macro2::Ident⟩ : ⟨proc_macro2::TokenStream⟩ \. ident \. clone \( \) ,$",
    "vis": r"^⟨proc_macro2::Ident⟩ : ⟨proc_macro2::TokenStream⟩ \. vis \. clone \( \) ,$",
    "ty": r"^⟨proc_macro2::Ident⟩ : ⟨proc_macro2::TokenStream⟩ \. ty \. clone \( \) ,$",
    "default": r"^⟨proc_macro2::Ident⟩ : ⟨proc_macro2::TokenStream⟩ \. default \. clone \( \) ,$",
    "generics": r"^⟨proc_macro2::Ident⟩ : :: darling :: FromGenerics :: from_generics \( & ⟨proc_macro2::TokenStream⟩ \. generics \) \? ,$",
    "data": r"^⟨proc_macro2::Ident⟩ : ⟨alt (?:⟨syn::path::Path⟩ ¦ :: darling :: ast :: Data :: try_from|:: darling :: ast :: Data :: try_from ¦ ⟨syn::path::Path⟩) ⟩ \( & ⟨proc_macro2::TokenStream⟩ \. data \) \? ,$",
    "fields": r"^⟨proc_macro2::Ident⟩ : :: darling :: ast :: Fields :: try_from \( & ⟨proc_macro2::TokenStream⟩ \. fields \) \? ,$",
    "discriminant": r"^⟨proc_macro2::Ident⟩ : ⟨proc_macro2::TokenStream⟩ \. discriminant \. as_ref \( \) \. map \( \| \( _ , expr \) \| expr \. clone \( \) \) ,$",
    "bounds": r"^⟨proc_macro2::Ident⟩ : ⟨proc_macro2::TokenStream⟩ \. bounds \. clone \( \) \. into_iter \( \) \. collect :: < Vec < _ >> \( \) ,$",
}


def magic_table(ctx, chain):
    """name constant -> slot written, recovered from parse_field's MIR."""
    f = ctx.fn(PF % chain)
    out = {}
    if not f:
        return out, None
    for blk, t in f.calls():
        c = mir.callee_of(t) or ""
        slot = None
        if c.endswith("Clone>::clone_from") or c.endswith("::clone_from"):
            a0 = ctx.expr(f, t["args"][0])
            m = re.match(r"^self\.(\w+)$", a0)
            if m and ctx.expr(f, t["args"][1]) == "a2.ident":
                slot = m.group(1)
        elif c.endswith("FromField>::from_field") and "ForwardedField" in (mir.callee_info(t).get("self_ty") or ""):
            # self.X = ForwardedField::from_field(field).map(Some)?
            for b2, i, st in f.stmts():
                if st["k"] == "assign" and st["p"]["local"] == 1 and st["p"]["proj"] and "ForwardedField as darling_core::from_field::FromField>::from_field(a2)" in ctx.expr(f, st["r"]):
                    slot = [e for e in st["p"]["proj"] if e["k"] == "field"][-1]["name"]
        if slot is None:
            continue
        names = None
        for d in ctx.pc_strs(f, blk):
            pos = {m.group(1) for a in d for m in [re.search(r', "(\w+)"\)=True$', a)] if m}
            names = pos if names is None else names & pos
        for n in names or []:
            out[n] = slot
    # `self.X = Some(ident.clone())` / `self.X = field.ident.clone()` under the name test
    for blk, i, st in f.stmts():
        if st["k"] == "assign" and st["p"]["local"] == 1 and st["p"]["proj"]:
            flds = [e for e in st["p"]["proj"] if e["k"] == "field"]
            v = ctx.expr(f, st["r"])
            if flds and re.search(r"clone\((\(a2\.ident as Some\)\.0|a2\.ident)\)", v):
                names = None
                for d in ctx.pc_strs(f, blk):
                    pos = {m.group(1) for a in d for m in [re.search(r', "(\w+)"\)=True$', a)] if m}
                    names = pos if names is None else names & pos
                for n in names or []:
                    out.setdefault(n, flds[-1]["name"])
    return out, f


def run(ctx):
    core = ctx.core("on")
    # "all such failures are reported, named fields located by their name": in the body conversion no
    # error value is dropped, discarded or split from what was attached to it
    from vlib import scan as _scan
    body_conv = [b for b in ctx.all_bodies(core) if b.file.endswith("/ast/data.rs") and not _scan.is_test_body(b) and not b.derived]
    common.error_discipline(ctx, "C16.D", body_conv)
    # ---------------------------------------------------------------- magic-name tables
    for chain, want in MAGIC.items():
        tab, f = magic_table(ctx, chain)
        ctx.ob("C16.S.magic-name-fills-same-slot", PF % chain, "magic names", tab == want, "recognised %s, documented %s" % (tab, want))
        if f:
            # every other field goes down the chain unchanged
            cs = resalg.cases(ctx, f)
            plain = [(c, v) for c, v in cs if not any(re.search(r', "\w+"\)=True$', a) for a in c)]
            ok = bool(plain) and all(re.match(r"^<[^ ]+ as darling_core::options::ParseData>::parse_field\(self\.\w+, a2\)$", v) for c, v in plain)
            ctx.ob("C16.G.ordinary-fields-delegated", f.key, "_ => base.parse_field(field)", ok, "ordinary fields must reach the container with the same field")
    # the names are matched against the Rust field name (before any rename)
    for chain in MAGIC:
        f = ctx.fn(PF % chain)
        if f:
            src = sorted({m.group(1) for c, v in resalg.cases(ctx, f) for a in c for m in [re.match(r'^.*(?:PartialEq for str>|PartialEq<T>>|PartialEq<&B> for &A>)::eq\((.*), "\w+"\)=(?:True|False)$', a)] if m})
            ctx.ob("C16.G.matched-on-rust-name", f.key, "field.ident.as_ref().map(to_string).as_deref()", bool(src) and all("a2.ident" in s for s in src), "%s" % [s[:120] for s in src])
    # ---------------------------------------------------------------- options → impl wiring and templates
    for gen, (opts, fields) in IMPLS.items():
        fr = ctx.fn("darling_core::options::%s::<impl core::convert::From<&'a darling_core::options::%s> for darling_core::codegen::%s>::from" % (
            opts.split("::")[0], opts, gen.replace("<'_>", "<'a>")), required=False)
        if fr is None:
            cands = ctx.fns_matching(r"From<&'a darling_core::options::%s> for darling_core::codegen::%s>::from$" % (re.escape(opts), re.escape(gen.replace("<'_>", "<'a>"))))
            fr = cands[0] if cands else None
        if fr is None:
            ctx.anchor_missing("C16.wire.options-to-impl", "From<&%s> for %s" % (opts, gen), "conversion not found")
        else:
            agg = ctx.find_aggregates(fr, r"codegen::")
            agg = [a for a in agg if a[2]["r"]["adt"].endswith(gen.split("::")[1].replace("<'_>", ""))]
            if agg:
                r = agg[0][2]["r"]
                m = {n: ctx.expr(fr, o) for n, o in zip(r["fields"], r["ops"])}
                for name, (rx, member) in fields.items():
                    ctx.ob("C16.wire.options-to-impl", fr.key, "Impl.%s" % name, name in m and re.search(rx, m[name]) is not None, "Impl.%s <= %s" % (name, m.get(name)))
            else:
                ctx.ob("C16.wire.options-to-impl", fr.key, "Impl construction", False, "aggregate not found")
        g = ctx.fn(common.TOK % gen)
        if not g:
            continue
        T = tpl.Templates(g)
        # the interpolation that carries magic member X: its source reads self.X (a closure handed
        # to self.X.map, a helper called with self.X) or is assembled under `self.X is Some`
        for name, (rx, member) in fields.items():
            texts = []
            for tk in T.events:
                if tk.kind != "interp":
                    continue
                hit = bool(tk.expr) and re.search(r"\bself\.%s\b" % re.escape(name), tk.expr) is not None
                if not hit and tk.src is not None:
                    for alt in T.stream_alts(tk.src):
                        if alt in T.by_stream and T.by_stream[alt]:
                            pcs = ctx.pc_strs(g, T.by_stream[alt][0].blk)
                            if pcs and all(ctx._sat(d, r"^is_some\(self\.%s\)=True$" % re.escape(name)) for d in pcs):
                                hit = True
                if hit:
                    txt = " ".join(T.render_tok(tk))
                    if txt not in texts:
                        texts.append(txt)
            texts = [x for x in texts if not any(x != y and x in y for y in texts)]      # pieces of the initialiser itself
            ok = len(texts) == 1 and re.match(TEMPLATE_SHAPE[member].replace("⟨proc_macro2::TokenStream⟩", "(?:⟨proc_macro2::TokenStream⟩|__\\w+)"), texts[0]) is not None
            ctx.ob("C16.H.magic-initialiser", g.key, "magic member `%s`" % name, ok, "self.%s → %s" % (name, texts))
        # the input the initialisers read is the fn's own parameter
        pn = [c for c in ctx.fns_matching(re.escape(gen.replace("<'_>", "<'_>")) + r" as darling_core::codegen::attr_extractor::ExtractAttribute>::param_name$")]
        if pn:
            Tp = tpl.Templates(pn[0])
            ptxt = " ".join(Tp.text(s) for s in Tp.root_streams())
            ctx.ob("C16.H.input-param", pn[0].key, "param name", re.match(r"^__\w+$", ptxt) is not None, ptxt)
    # ---------------------------------------------------------------- body conversion
    f = ctx.fn("darling_core::ast::data::Data::<V, F>::try_from")
    if f:
        arms = {}
        for conds, v in resalg.cases(ctx, f):
            for a in conds:
                m = re.match(r"^discr\(a1\)=(\w+)$", a)
                if m:
                    arms.setdefault(m.group(1), []).append((conds, v))
        ctx.ob("C16.E.data-kinds", f.key, "Enum / Struct / Union", set(arms) == {"Enum", "Struct", "Union"}, "%s" % sorted(arms))
        # (`finish_with(x)` reads as: Ok(x) when finish() is Ok, finish()'s error otherwise)
        en_ = arms.get("Enum", [])
        ok = any(v.startswith("core::result::Result::Ok{darling_core::ast::data::Data::Enum{") and any(re.match(r"^is_ok\(.*Accumulator::finish\(.*\)\)=True$", a) for a in c) for c, v in en_) \
            and all(v.startswith("core::result::Result::Ok{darling_core::ast::data::Data::Enum{") or re.match(r"^core::result::Result::Err\{\(.*Accumulator::finish\(.*\) as Err\)\.0\}$", v) for c, v in en_)
        ctx.ob("C16.E.enum-stays-enum", f.key, "Enum → finish_with(Data::Enum(items))", ok, "%s" % [v[:140] for c, v in arms.get("Enum", [])])
        FT = "darling_core::ast::data::Fields::<F>::try_from((a1 as Struct).0.fields)"
        st = sorted(v for c, v in arms.get("Struct", []))
        ok = st == sorted(["core::result::Result::Ok{darling_core::ast::data::Data::Struct{(%s as Ok).0}}" % FT, "core::result::Result::Err{(%s as Err).0}" % FT])
        ctx.ob("C16.E.struct-stays-struct", f.key, "Struct → Data::Struct(Fields::try_from(&data.fields)?)", ok, "%s" % [v[:160] for v in st])
        ok = [v for c, v in arms.get("Union", [])] == ['core::result::Result::Err{darling_core::error::Error::custom("Unions are not supported")}']
        ctx.ob("C16.E.union-is-error", f.key, "Union → Err", ok, "%s" % arms.get("Union"))
        hs = [h for h in ctx.per_element(f, r"FromVariant(>)?::from_variant$")]
        ok = len(hs) == 1 and hs[0]["form"] in ("adapter", "loop") and "iter((a1 as Enum).0.variants)" in hs[0]["source"].replace("syn::punctuated::Punctuated::<T, P>::", "")
        # … and the walk does not stop early: collecting into Option<_> / Result<_, _> ends at the first
        # variant that failed, leaving the later ones unvisited (their errors unreported)
        shortc = [mir.callee_info(t_).get("targs") for _, t_ in ctx.find_calls(f, r"Iterator(>)?::collect$") if any(str(x).startswith(("core::option::Option<", "core::result::Result<")) for x in (mir.callee_info(t_).get("targs") or [])[1:])]
        shortc += [mir.callee_of(t_) for _, t_ in ctx.find_calls(f, r"Iterator(>)?::(try_for_each|try_fold|map_while|take_while|find_map|find|all|any)$")]
        ctx.ob("C16.G.every-variant-visited", f.key, "no short-circuiting walk over the variants / fields", not shortc, "short-circuiting adapters: %s" % shortc)
        ctx.ob("C16.G.one-entry-per-variant-in-order", f.key, "from_variant once per variant of variants.iter()", ok, "%s" % [(h["form"], h["source"][:140]) for h in hs])
    f = ctx.fn("darling_core::ast::data::Fields::<F>::try_from")
    if f:
        hs = ctx.per_element(f, r"FromField(>)?::from_field$", helpers=1)
        srcs = sorted(re.sub(r".*iter\(", "iter(", h["source"]) for h in hs)
        ctx.ob("C16.G.one-entry-per-field-in-order", f.key, "named.iter() / unnamed.iter()", srcs == ["iter((a1 as Named).0.named)", "iter((a1 as Unnamed).0.unnamed)"] and all(h["form"] in ("adapter", "loop") for h in hs), "%s" % srcs)
        # each conversion stands in the arm of its own field kind
        for blk, t, owner in ctx.find_calls_deep(f, r"FromField(>)?::from_field$", helpers=1):
            pcs = ctx.pc_strs(f, blk)
            kinds = {m.group(1) for d in pcs for a in d for m in [re.match(r"^discr\(a1\)=(Named|Unnamed)$", a)] if m}
            ctx.ob("C16.E.field-kinds", f.key, "from_field in the arm of %s" % sorted(kinds), len(kinds) == 1, "path conditions %s" % [sorted(d) for d in pcs])
        # named fields located by their name; unnamed not
        ats = {}
        for blk, t, owner in ctx.find_calls_deep(f, r"^darling_core::error::Error::at$", helpers=2):
            for d in ctx.pc_strs(f, blk):
                for a in d:
                    m = re.match(r"^discr\(a1\)=(\w+)$", a)
                    if m:
                        ats.setdefault(m.group(1), []).append(ctx.expr(owner, t["args"][1]))
        ok = set(ats) == {"Named"} and all(re.search(r"ident", x) for x in ats["Named"])
        ctx.ob("C16.G.named-fields-located", f.key, "err.at(ident) only for named fields", ok, "Error::at calls per field kind: %s" % ats)
        okrows = [v for c, v in resalg.cases(ctx, f) if v.startswith("core::result::Result::Ok{")]
        ok = bool(okrows) and all(re.search(r"Fields::<T>::new\((?:[^(),]*(?:into|from)\()?a1\)?, ", v) for v in okrows)
        ctx.ob("C16.G.style-from-input", f.key, "Fields::new(fields.into(), items)", ok, "%s" % [v[:160] for v in okrows])
    f = ctx.fn("<darling_core::ast::data::Style as core::convert::From<&syn::data::Fields>>::from")
    if f:
        m = {}
        for blk, i, st in ctx.find_aggregates(f, r"ast::data::Style$"):
            for d in ctx.pc_strs(f, blk):
                for a in d:
                    mm = re.match(r"^discr\(a1\)=(\w+)$", a)
                    if mm:
                        m[mm.group(1)] = st["r"]["variant"]
        ctx.ob("C16.E.style-per-field-kind", f.key, "Named→Struct, Unnamed→Tuple, Unit→Unit", m == {"Named": "Struct", "Unnamed": "Tuple", "Unit": "Unit"}, "%s" % m)
    f = ctx.fn("<darling_core::ast::generics::Generics<P> as darling_core::from_generics::FromGenerics>::from_generics")
    if f:
        aggs = ctx.find_aggregates(f, r"ast::generics::Generics$")
        ok = len(aggs) == 1
        detail = "%d Generics constructions" % len(aggs)
        if ok:
            r = aggs[0][2]["r"]
            m = {n: ctx.expr(f, o) for n, o in zip(r["fields"], r["ops"])}
            pi = r["fields"].index("params") if "params" in r["fields"] else None
            cf = ctx.collection_form(f, r["ops"][pi]) if pi is not None else None
            ok = (cf is not None and "a1.params" in cf["source"] and "from_generic_param" in cf["element"]
                  and not (set(cf["chain"]) - {"map", "collect", "iter", "into_iter"})
                  and re.search(r"clone\(a1\.where_clause\)$", m.get("where_clause", "")) is not None)
            detail = "%s; params built as %s" % ({k: v[:160] for k, v in m.items()}, cf and {k: str(v)[:120] for k, v in cf.items()})
        ctx.ob("C16.G.generics-mirror", f.key, "params mapped in order + where clause cloned", ok, detail)
    # ---------------------------------------------------------------- [B] provenance of magic members
    pop = [b for b in derived.population(ctx) if b.key.rsplit("::", 1)[-1] in ("from_derive_input", "from_field", "from_variant", "from_type_param")]
    n = 0
    for b in pop:
        D = derived.DerivedFn(b)
        for blk, st in D.ok_blocks:
            e = D.sym.operand(st["r"]["ops"][0])
            from .C01 import _find_receiver_agg, _agg_fields
            agg = _find_receiver_agg(e)
            if not agg:
                continue
            fields = _agg_fields(b, agg[1])
            if not fields or len(fields) != len(agg[2]):
                continue
            for fname, val in zip(fields, agg[2]):
                if fname in ("ident", "vis", "ty", "generics", "data", "fields", "discriminant", "bounds") and fname not in D.slots.values():
                    s = D.sym.show(val)
                    n += 1
                    member = {"ty": "ty"}.get(fname, fname)
                    ok = re.search(r"\ba1\.%s\b" % member, s) is not None
                    ctx.ob("C16.B.magic-provenance", b.key, "member %s" % fname, ok, "built from %s" % s[:160])
    ctx.floor("C16.B", "magic members in derived code", n, 25)
    return ctx.finish(
        explanation="Magic-name tables of 5 option structs, options→impl wiring and initialiser templates of 4 element-level impls, structure of Data/Fields::try_from, provenance of %d magic members in derived code." % n,
        assumptions=["Clone of syn nodes is faithful (trusted base)"],
    )

"""Level-B corpus (DESIGN.md 2.4): generated receivers that must type-check against the working
tree in a crate depending only on darling."""
import glob
import json
import os
import re

# `skip` and `skip = true` skip; `skip = false` is an ordinary member
SKIP_RX = r"\bskip\b(?!\s*=\s*false)"

from vlib import facts


def corpus(ctx):
    mode = "thorough" if ctx.tier == "thorough" else "base"
    seed = ctx.seed if mode == "thorough" else 0
    return facts.corpus_facts(mode, seed)


def check_corpus(ctx):
    fdir, crate, log = corpus(ctx)
    exp = json.load(open(os.path.join(crate, "expected.json")))
    recs = exp["receivers"]
    ctx.floor("C20.B.corpus", "generated receivers", len(recs), 300)
    cargo_toml = open(os.path.join(crate, "Cargo.toml")).read()
    deps = re.findall(r"^(\w+)\s*=", cargo_toml.split("[dependencies]")[1], re.M)
    ctx.ob("C20.B.corpus-depends-only-on-darling", "verif_corpus", "dependencies", deps == ["darling"], "dependencies: %s" % deps)
    if fdir is not None:
        traits = {}
        for r in recs:
            traits[r["trait"]] = traits.get(r["trait"], 0) + 1
        for tr, n in sorted(traits.items()):
            ctx.ob("C20.B.type-checks", "verif_corpus", "%d receivers deriving %s" % (n, tr), True, "rustc type-checked the expansion of every receiver")
        ctx.samples.append({"corpus_receivers": len(recs), "by_trait": traits, "example": recs[0]})
        return True
    # failure: attribute rustc's errors to receivers
    line_of = sorted((l, n) for n, l in exp["line_of"].items())
    bad = {}
    for m in re.finditer(r"(error(?:\[E\d+\])?: [^\n]+)\n\s+--> src/lib\.rs:(\d+)", log):
        ln = int(m.group(2))
        name = None
        for l, n in line_of:
            if l <= ln:
                name = n
        bad.setdefault(name or "?", m.group(1))
    by_name = {r["name"]: r for r in recs}
    for name, err in list(bad.items())[:25]:
        ctx.ob("C20.B.type-checks", "verif_corpus::%s" % name, "%s" % json.dumps({k: v for k, v in by_name.get(name, {}).items() if k != "name"}, sort_keys=True)[:160], False,
               "an accepted receiver declaration does not compile in a crate that depends only on darling: %s" % err)
    if not bad:
        ctx.ob("C20.B.type-checks", "verif_corpus", "cargo check", False, "the corpus failed to build: %s" % log[-800:])
    return False


def corpus_crates(ctx):
    """Parsed fact files of the corpus crate (for Level-B rules of other properties)."""
    fdir, crate, log = corpus(ctx)
    if fdir is None:
        return []
    out = []
    for f in sorted(glob.glob(os.path.join(fdir, "verif_corpus-*.json"))):
        with open(f) as fh:
            c = json.load(fh)
        c["_file"] = f
        out.append(c)
    return out


# ---------------------------------------------------------------------------- N rules (thorough)
def case_field(rule, name):
    """Independent implementation of the six case rules for a snake_case field name."""
    if rule in (None, "lowercase", "snake_case"):
        return name
    parts = name.split("_")
    if rule == "PascalCase":
        return "".join(p[:1].upper() + p[1:] for p in parts)
    if rule == "camelCase":
        s = "".join(p[:1].upper() + p[1:] for p in parts)
        return s[:1].lower() + s[1:]
    if rule == "SCREAMING_SNAKE_CASE":
        return name.upper()
    if rule == "kebab-case":
        return name.replace("_", "-")
    raise ValueError(rule)


def case_variant(rule, name):
    """Independent implementation of the case rules for a PascalCase variant name (enums default to snake_case)."""
    if rule in (None, "PascalCase"):
        return name
    if rule == "lowercase":
        return name.lower()
    if rule == "camelCase":
        return name[:1].lower() + name[1:]
    snake = ""
    for i, ch in enumerate(name):
        if ch.isupper() and i > 0:
            snake += "_"
        snake += ch.lower()
    if rule == "snake_case":
        return snake
    if rule == "SCREAMING_SNAKE_CASE":
        return snake.upper()
    if rule == "kebab-case":
        return snake.replace("_", "-")
    raise ValueError(rule)


def name_table_rules(ctx, prefix, kind):
    """Compare the name constants recovered from each derived from_list of the corpus with the
    effective names computed independently from the declaration (rule N)."""
    import re
    from vlib import derived
    fdir, crate, log = corpus(ctx)
    if fdir is None:
        return 0
    exp = json.load(open(os.path.join(crate, "expected.json")))
    src = open(os.path.join(crate, "src", "lib.rs")).read()
    by_name = {r["name"]: r for r in exp["receivers"]}
    n = 0
    bodies = {}
    for c in corpus_crates(ctx):
        for b in ctx.all_bodies(c):
            m = re.match(r"^<verif_corpus::(\w+)(?:<.*>)? as darling_core::from_meta::FromMeta>::from_list$", b.key)
            if m and b.kind != "Closure":
                bodies[m.group(1)] = b
    for name, r in sorted(by_name.items()):
        if r.get("trait") != "FromMeta" or r.get("kind") != kind or name not in bodies:
            continue
        cattrs = r.get("container") or []
        rule = None
        for a in cattrs:
            mm = re.match(r'rename_all = "(.*)"', a)
            if mm:
                rule = mm.group(1)
        # declaration text of this receiver
        mdecl = re.search(r"// receiver %s\n(.*?)(?=\n// receiver |\Z)" % name, src, re.S)
        decl = mdecl.group(1) if mdecl else ""
        D = derived.DerivedFn(bodies[name])
        got = sorted({nt[1] for nt in D.name_tests})
        if kind == "struct":
            body = re.search(r"pub struct %s[^{;(]*\{(.*?)\}\s*(?:\n|$)" % name, decl, re.S)
            if not body:
                continue
            want = []
            for fm in re.finditer(r"((?:#\[darling\([^\]]*\)\]\s*)*)pub\s+((?:r#)?\w+)\s*:", body.group(1)):
                attrs, fname = fm.group(1), fm.group(2)
                ren = re.search(r'rename = "([^"]*)"', attrs)
                if re.search(SKIP_RX, attrs) or re.search(r"\bflatten\b", attrs):
                    continue
                want.append(ren.group(1) if ren else case_field(rule, fname))
            want = sorted(want)
        else:
            body = re.search(r"pub enum %s[^{]*\{\n(.*?)\n\}" % name, decl, re.S)
            if not body:
                continue
            want = set()
            pending = ""
            depth = 0
            for line in body.group(1).split("\n"):
                s = line.strip()
                if depth == 0 and s.startswith("#[darling("):
                    pending += s
                    continue
                vm = re.match(r"^(\w+)\b", s) if depth == 0 else None
                if vm and not s.startswith("#"):
                    vname = vm.group(1)
                    ren = re.search(r'rename = "([^"]*)"', pending)
                    skip = re.search(SKIP_RX, pending)
                    pending = ""
                    if not skip:
                        want.add(ren.group(1) if ren else case_variant(rule or "snake_case", vname))
                    # names of the fields of inline struct variants are dispatch constants too
                    for fm in re.finditer(r"(?:#\[darling\(([^\]]*)\)\] )?(\w+): ", s[s.find("{") + 1:] if "{" in s else ""):
                        attrs, fname = fm.group(1) or "", fm.group(2)
                        ren = re.search(r'rename = "([^"]*)"', attrs)
                        if re.search(SKIP_RX, attrs):
                            continue
                        want.add(ren.group(1) if ren else case_field(rule or "snake_case", fname))
            want = sorted(want)
        n += 1
        ctx.ob("%s.N.effective-names" % prefix, "verif_corpus::%s" % name, "dispatch constants (rename_all = %s)" % rule, got == want,
               "derived from_list dispatches on %s; the declaration's effective names are %s" % (got, want))
    return n

"""Level-B corpus (DESIGN.md 2.4): generated receivers that must type-check against the working
tree in a crate depending only on darling."""
import glob
import json
import os
import re

from vlib import facts


def corpus(ctx):
    mode = "thorough" if ctx.tier == "thorough" else "base"
    seed = ctx.seed if mode == "thorough" else 0
    return facts.corpus_facts(mode, seed)


def check_corpus(ctx):
    fdir, crate, log = corpus(ctx)
    exp = json.load(open(os.path.join(crate, "expected.json")))
    recs = exp["receivers"]
    ctx.floor("C20.B.corpus", "generated receivers", len(recs), 300)
    cargo_toml = open(os.path.join(crate, "Cargo.toml")).read()
    deps = re.findall(r"^(\w+)\s*=", cargo_toml.split("[dependencies]")[1], re.M)
    ctx.ob("C20.B.corpus-depends-only-on-darling", "verif_corpus", "dependencies", deps == ["darling"], "dependencies: %s" % deps)
    if fdir is not None:
        traits = {}
        for r in recs:
            traits[r["trait"]] = traits.get(r["trait"], 0) + 1
        for tr, n in sorted(traits.items()):
            ctx.ob("C20.B.type-checks", "verif_corpus", "%d receivers deriving %s" % (n, tr), True, "rustc type-checked the expansion of every receiver")
        ctx.samples.append({"corpus_receivers": len(recs), "by_trait": traits, "example": recs[0]})
        return True
    # failure: attribute rustc's errors to receivers
    line_of = sorted((l, n) for n, l in exp["line_of"].items())
    bad = {}
    for m in re.finditer(r"(error(?:\[E\d+\])?: [^\n]+)\n\s+--> src/lib\.rs:(\d+)", log):
        ln = int(m.group(2))
        name = None
        for l, n in line_of:
            if l <= ln:
                name = n
        bad.setdefault(name or "?", m.group(1))
    by_name = {r["name"]: r for r in recs}
    for name, err in list(bad.items())[:25]:
        ctx.ob("C20.B.type-checks", "verif_corpus::%s" % name, "%s" % json.dumps({k: v for k, v in by_name.get(name, {}).items() if k != "name"}, sort_keys=True)[:160], False,
               "an accepted receiver declaration does not compile in a crate that depends only on darling: %s" % err)
    if not bad:
        ctx.ob("C20.B.type-checks", "verif_corpus", "cargo check", False, "the corpus failed to build: %s" % log[-800:])
    return False


def corpus_crates(ctx):
    """Parsed fact files of the corpus crate (for Level-B rules of other properties)."""
    fdir, crate, log = corpus(ctx)
    if fdir is None:
        return []
    out = []
    for f in sorted(glob.glob(os.path.join(fdir, "verif_corpus-*.json"))):
        with open(f) as fh:
            c = json.load(fh)
        c["_file"] = f
        out.append(c)
    return out

"""C07 – parsing is total at run time: every input yields Ok or Err, never a panic.

Decided: the panic census of the run-time library (from_meta.rs, util/, ast/, error/, from_*.rs)
with guard rules [A]; the same census over every derived fn of the Level-B population (tests,
examples; corpus in thorough) [B]; the template-level panic-token census of the generator [A,H];
accumulator typestate (T) and error-discipline (D) on both.
Not decided: stack exhaustion on deeply nested input; panics inside user callables."""
import re

from vlib import mir, scan, tpl
from . import common

META = dict(
    level="every panic-capable MIR construct of the run-time library and of every derived function in the population is enumerated and must match a table row whose guard is itself a checked path-condition rule; generator templates are scanned for panic-family tokens",
    technique="static analysis: panic census over MIR with path-condition guards; typestate (drop elaboration); template token census",
)

PANIC_TOKENS = {"expect", "unwrap", "unreachable", "panic", "unimplemented", "todo", "assert", "assert_eq", "unwrap_err", "expect_err", "unwrap_unchecked"}
# (generator fn, token) -> reason / finding
TEMPLATE_PANIC_TABLE = {
    (common.TOK % "field::Initializer<'_>", "expect"): dict(
        guard=[r"is_some\(self\.0\.default_expression\)=False", r"self\.0\.multiple=False"],
        why="slot.1.expect(): same generator condition as CheckMissing's presence check (rule C07.S.init-vs-check)"),
    (common.TOK % "attrs_field::Initializer<'_>", "expect"): dict(
        who="populator-pairing", why="forwarded attrs value: declaration => populator on every generator path (rule C07.P.populator)"),
}


def runtime_bodies(ctx, core):
    return [b for b in ctx.all_bodies(core) if not common.derive_file(b) and not scan.is_test_body(b) and not b.derived] + \
           [b for b in ctx.all_bodies(core) if "/usage/" in b.file and not scan.is_test_body(b)]


def derived_population(ctx):
    out = []
    crates = list(ctx.test_crates())
    if ctx.tier == "thorough":
        from . import corpus
        crates += corpus.corpus_crates(ctx)
    for c in crates:
        for b in ctx.all_bodies(c):
            if b.derived and (b.impl or {}).get("trait", "").startswith("darling_core::") or "__validate_body" in b.key and b.derived:
                out.append(b)
    return out


def run(ctx):
    core = ctx.core("on")
    bodies = runtime_bodies(ctx, core)
    ctx.floor("C07.scope", "run-time library bodies", len(bodies), 500)
    sites = common.panic_census(ctx, "C07.C", bodies, "runtime")
    ctx.floor("C07.C", "panic-capable sites in run-time code", len(sites), 20)

    # ------------------------------------------------------------ who-rules named in the table
    nontest = [b for b in ctx.all_bodies(core) if not scan.is_test_body(b)]
    mac = [b for c in ctx.crates("darling_macro") if not c["test"] for b in ctx.all_bodies(c)]
    for callee in ("darling_core::ast::data::Data::<V, F>::empty_from", "darling_core::util::ident_string::IdentString::map"):
        callers = []
        for b in nontest + mac:
            for blk, t_ in ctx.find_calls(b, "^" + re.escape(callee) + "$"):
                # a call that can only be reached with an input the callee accepts is not a panic path:
                # empty_from panics on a union only
                if callee.endswith("::empty_from"):
                    arg = ctx.expr(b, t_["args"][0])
                    pcs = ctx.pc_strs(b, blk)
                    if pcs and all(ctx._sat(d, ("ne", "^discr\\(%s\\)$" % re.escape(arg), "Union")) for d in pcs):
                        continue
                callers.append(b.key)
        ctx.ob("C07.who.no-caller", callee, "callers outside tests", not callers, "documented panicking API called (without excluding the panicking input) from %s" % callers)
    makers = [b.key for b in nontest if not b.derived and ctx.find_aggregates(b, r"^darling_core::error::kind::ErrorKind$", "__NonExhaustive")]
    ctx.ob("C07.who.nonexhaustive-never-built", "darling_core::error::kind::ErrorKind::__NonExhaustive", "constructors", not makers, "constructed in %s" % makers)
    # ErrorKind::Multiple is built only by Error::multiple (len >= 2) and the count-preserving map in add_sibling_alts
    makers = sorted({b.owner_fn for b in nontest if not b.derived and ctx.find_aggregates(b, r"^darling_core::error::kind::ErrorKind$", "Multiple")})
    ctx.ob("C07.who.multiple-nonempty", "darling_core::error::kind::ErrorKind::Multiple", "constructors",
           set(makers) <= {"darling_core::error::Error::multiple", "darling_core::error::Error::add_sibling_alts_for_unknown_field"} and "darling_core::error::Error::multiple" in makers,
           "constructed in %s" % makers)
    f = ctx.fn("darling_core::error::Error::multiple")
    if f:
        for blk, i, st in ctx.find_aggregates(f, r"ErrorKind$", "Multiple"):
            ctx.requires("C07.who.multiple-nonempty", f, blk, "ErrorKind::Multiple", [("ne", r"^len\(a1\)$", 0), ("ne", r"^len\(a1\)$", 1)])
    f = ctx.fn("darling_core::error::Accumulator::finish_with")
    if f:
        for blk, t in ctx.find_calls(f, r"^darling_core::error::Error::multiple$"):
            ctx.requires("C07.who.multiple-nonempty", f, blk, "multiple(errors)", [("ne", r"^len\(.*\)$", 0)])
    def home(b):
        # a private helper with one call site counts as the function it was cut out of
        for _ in range(2):
            up = ctx.caller_of(b) if b.kind in ("Fn", "AssocFn") else None
            if up is None:
                break
            b = up
        return b.key
    callers = sorted({home(b) for b in nontest if not b.derived and ctx.find_calls(b, r"^darling_core::error::Error::multiple$")})
    ctx.ob("C07.who.multiple-callers", "darling_core::error::Error::multiple", "callers",
           set(callers) <= {"darling_core::error::Accumulator::finish_with", "darling_core::error::Error::flatten"}, "called from %s" % callers)
    f = ctx.fn("darling_core::error::Error::at")
    if f:
        c = ctx.find_calls(f, r"^alloc::vec::Vec::<T, A>::insert$")
        ctx.ob("C07.who.insert-at-zero", f.key, "Vec::insert index", len(c) == 1 and ctx.expr(f, c[0][1]["args"][1]) == "0_usize", "index %s" % [ctx.expr(f, t["args"][1]) for _, t in c])
    takers = sorted({b.key for b in nontest for blk, t in ctx.find_calls(b, r"^core::option::Option::<T>::take$|^core::mem::take$|^core::mem::replace$")
                     if t["args"] and str(t["args"][0].get("p", {}).get("ty", "")).startswith("&mut core::option::Option<alloc::vec::Vec<darling_core::error::Error>")})
    ctx.ob("C07.who.take-only-in-into-inner", "Option<Vec<Error>>::take", "callers", takers == ["darling_core::error::Accumulator::into_inner"], "called from %s" % takers)
    common.unit_rejects_non_words(ctx, "C07.who.unit-overrides-only-from-word", core)
    f = ctx.fn("<darling_core::util::shape::ShapeSet as core::fmt::Display>::fmt")
    if f:
        for blk, t in ctx.find_calls(f, r"core::ops::index::Index<.*>>::index$"):
            idx = ctx.expr(f, t["args"][1])
            m = re.match(r"^(\d+)_usize$", idx)
            ok = False
            if m:
                i = int(m.group(1))
                d = ctx.pc_strs(f, blk)
                ok = bool(d) and all(any(re.search(r"len\(.*to_vec\(self\)\)=(\d+)$", a) and int(re.search(r"=(\d+)$", a).group(1)) > i for a in x) for x in d)
            ctx.ob("C07.who.index-below-len", f.key, "shapes[%s]" % idx, ok, "constant index must be below the length of the arm it sits in")

    # ------------------------------------------------------------ T / D on the run-time library
    n = common.acc_typestate(ctx, "C07.T.no-live-drop", bodies)
    ctx.floor("C07.T", "run-time functions holding an accumulator", n, 10)
    common.error_discipline(ctx, "C07.D", bodies)

    # ------------------------------------------------------------ H: panic-family tokens in templates
    gens = [b for b in ctx.all_bodies(core) if common.derive_file(b) and not scan.is_test_body(b)]
    n_tpl = 0
    seen_rows = set()
    for b in gens:
        T = tpl.Templates(b)
        if not T.events:
            continue
        n_tpl += 1
        for tk in T.all_tokens(("ident",)):
            if tk.text in PANIC_TOKENS:
                row = TEMPLATE_PANIC_TABLE.get((b.key, tk.text))
                ev = "token `%s`" % tk.text
                if row is None:
                    ctx.ob("C07.H.panic-token", b.key, ev, False, "template emits a panic-family token without a table row; generator condition %s" % ctx.pc_strs(b, tk.blk))
                    continue
                seen_rows.add((b.key, tk.text))
                if row.get("finding"):
                    ctx.ob("C07.H.panic-token", b.key, ev, False, "%s: %s" % (row["finding"], row["why"]))
                elif row.get("guard"):
                    ctx.requires("C07.H.panic-token", b, tk.blk, ev, row["guard"])
                else:
                    ctx.ob("C07.H.panic-token", b.key, ev, True, row["why"])
        for tk in T.all_tokens(("group",)):
            pass
    ctx.floor("C07.H", "generator functions with templates", n_tpl, 60)
    for key in TEMPLATE_PANIC_TABLE:
        if key not in seen_rows:
            ctx.anchor_missing("C07.H.panic-token", key[0], "table row for token `%s` no longer matches any template" % key[1])
    # indexing in templates: `[ <int literal> ]` directly after an identifier
    for b in gens:
        T = tpl.Templates(b)
        for s in T.root_streams():
            toks = T.render(s)
            for i in range(len(toks) - 3):
                if re.match(r"^[A-Za-z_]\w*$", toks[i]) and toks[i + 1] == "[" and re.match(r"^\d+$", toks[i + 2]) and toks[i + 3] == "]":
                    # the match arm that contains the index expression: nearest `=>` in the same or an
                    # enclosing group, and the pattern in front of it
                    depth = 0
                    need_exit = False
                    pats = []
                    for k in range(i - 1, -1, -1):
                        if toks[k] in ("}", ")", "]", "»"):
                            depth += 1
                        elif toks[k] in ("{", "(", "[", "«"):
                            if depth > 0:
                                depth -= 1
                            else:
                                need_exit = False      # left the group: the next `=>` belongs to an enclosing arm
                        elif toks[k] == "=>" and depth == 0 and not need_exit:
                            pats.append(" ".join(toks[max(0, k - 40):k]))
                            need_exit = True
                    one_arm = any(re.search(r"(^|[,{}] )1$", p) for p in pats)
                    slice_arm = any(re.search(r"\[ (?!\])[^,]*\]$", p) for p in pats)
                    txt_pat = " || ".join(p[-40:] for p in pats)
                    ok = (one_arm or slice_arm) and toks[i] == "__outer" and toks[i + 2] == "0"
                    ctx.ob("C07.H.template-index", b.key, "%s[%s]" % (toks[i], toks[i + 2]), ok, "constant index in a template must sit in an arm that fixes the length (`1 =>` of `match __outer.len()` or a one-element slice pattern); arm pattern: …%s" % txt_pat[-80:])
    # S: Initializer's expect branch and CheckMissing's check have the same generator condition
    ini = ctx.fn(common.TOK % "field::Initializer<'_>")
    chk = ctx.fn(common.TOK % "field::CheckMissing<'_>")
    if ini and chk:
        Ti, Tc = tpl.Templates(ini), tpl.Templates(chk)
        e_pc = [sorted(x) for tk in Ti.all_tokens(("ident",)) if tk.text == "expect" for x in ctx.pc_strs(ini, tk.blk)]
        c_pc = [sorted(x) for tk in Tc.all_tokens(("ident",)) if tk.text == "missing_field" for x in ctx.pc_strs(chk, tk.blk)]
        ctx.ob("C07.S.init-vs-check", ini.key, "expect vs missing_field", bool(e_pc) and e_pc == c_pc,
               "Initializer emits expect under %s; CheckMissing emits the presence check under %s" % (e_pc, c_pc))
        # the presence check covers both outcomes of from_none(): Some => slot.1 = Some, None => push
        txt = " ".join(Tc.render(Tc.root_streams()[-1])) if Tc.root_streams() else ""
        ok = bool(re.search(r"if ! ⟨proc_macro2::Ident⟩ \. 0 \{ match .*from_none \( \) \{ :: darling :: export :: Some \( __type_fallback \) => \{ ⟨proc_macro2::Ident⟩ \. 1 = :: darling :: export :: Some \( __type_fallback \) ; \} :: darling :: export :: None => \{ __errors \. push \(", txt))
        # (the same two outcomes as `if let Some(..) = .. { .. } else { .. }`)
        ok = ok or bool(re.search(r"if ! ⟨proc_macro2::Ident⟩ \. 0 \{ if let :: darling :: export :: Some \( __type_fallback \) = .*from_none \( \) \{ ⟨proc_macro2::Ident⟩ \. 1 = :: darling :: export :: Some \( __type_fallback \) ; \} else \{ __errors \. push \(", txt))
        ctx.ob("C07.S.check-shape", chk.key, "presence check", ok, "template: %s" % txt[:400])
    # P: forwarded-attrs declaration => populator on every path of extractor (F6)
    ext = ctx.fn("darling_core::codegen::attr_extractor::ExtractAttribute::extractor")
    if ext:
        decl = ctx.find_calls(ext, r"ForwardAttrs::<'_>::as_declaration$")
        pop = ctx.find_calls(ext, r"ForwardAttrs::<'_>::as_value_populator$")
        rets = [b for b in sorted(ext.normal_blocks()) if ext.term(b)["k"] == "return"]
        ok = bool(decl) and bool(pop)
        if ok:
            avoid = {b for b, _ in pop}
            reach = ext.reachable(0, False, avoid=avoid)
            ok = not any(r in reach for r in rets)
        ctx.ob("C07.P.populator", ext.key, "declaration => populator", ok,
               "F6: a path through extractor() emits the forwarded-field declaration (as_declaration) but returns without its value populator; the initializer then expect()s None")

    # ------------------------------------------------------------ [B] derived code
    pop_b = derived_population(ctx)
    if ctx.tier == "thorough":
        pass
    ctx.floor("C07.B", "derived darling impl fns (and their closures) in tests/examples", len(pop_b), 250)
    nb_sites = 0
    for b in pop_b:
        for blk, kind, detail in scan.panic_sites(b):
            if kind.startswith(common.IGNORED_ASSERTS):
                continue
            nb_sites += 1
            t = b.term(blk)
            short = b.key.rsplit("::", 1)[-1]
            if kind == "option-unwrap":
                _check_expect(ctx, b, blk, t)
            elif kind == "bounds-assert":
                ctx.requires("C07.B.index-under-len", b, blk, "__outer[0]", [r"len\(a1\)=1$"])
            elif kind == "panic" and short == "__validate_body":
                sv = None
                for pb in b.normal_blocks():
                    s2 = scan.switch_variants(b, pb)
                    if s2 and any(tb == blk for tb in s2[2].values()):
                        sv = [v for v, tb in s2[2].items() if tb == blk]
                ctx.ob("C07.B.validate-body-total", _generic_key(b), "panic on %s" % sv, False, "F5: generated __validate_body panics on syn::Data::%s" % sv)
            else:
                ctx.ob("C07.B.unlisted", _generic_key(b), "%s %s" % (kind, detail), False, "panic-capable construct in derived code without a rule: %s" % b.key)
    ctx.floor("C07.B.sites", "panic-capable sites in derived code", nb_sites, 80)
    n = common.acc_typestate(ctx, "C07.B.T.no-live-drop", pop_b)
    ctx.floor("C07.B.T", "derived fns holding an accumulator", n, 80)
    return ctx.finish(
        explanation="Panic census (table + guard path conditions) over %d run-time library bodies and %d derived fns of tests/examples; panic-token census over %d generator templates; typestate and error-discipline rules." % (len(bodies), len(pop_b), n_tpl),
        assumptions=["std, syn, proc-macro2 do not panic on the calls darling makes except through the partial APIs the census lists",
                     "user-supplied `with`/`map`/`and_then` callables do not panic",
                     "Level B quantifies over the receivers of tests/ and examples/ (and the corpus in thorough)"],
    )


def _generic_key(b):
    # keep keys free of receiver names where the rule is about the template, not the receiver
    if b.key.endswith("::__validate_body"):
        return "<derived receiver>::__validate_body"
    return b.key


def _check_expect(ctx, b, blk, t):
    """`X.expect(..)` in derived code: either a field slot (`slot.1`) or the forwarded attrs value."""
    a0 = t["args"][0]
    ev = "expect"
    if a0["k"] not in ("copy", "move"):
        ctx.ob("C07.B.expect", b.key, ev, False, "expect on a non-place operand")
        return
    p = a0["p"]
    root = p["local"]
    # chase `_x = move _slot.1`
    proj = [e for e in p["proj"] if e["k"] != "deref"]
    cur = root
    for _ in range(4):
        if proj:
            break
        ds = [d for d in b.defs().get(cur, []) if d[2] == "assign"]
        if len(ds) == 1 and ds[0][3]["r"]["k"] == "use" and ds[0][3]["r"]["op"]["k"] in ("copy", "move"):
            pp = ds[0][3]["r"]["op"]["p"]
            cur = pp["local"]
            proj = [e for e in pp["proj"] if e["k"] != "deref"]
        else:
            break
    fin = r"is_ok\(.*darling_core::error::Accumulator::finish\(.*\).*\)=True"
    if proj and proj[-1]["k"] == "field" and proj[-1]["name"] == "1":
        # field slot: guarded by the single exit and a presence check on the same slot
        ok1 = ctx.requires("C07.B.expect-after-finish", b, blk, ev, [fin])
        slot = cur
        has_check = False
        for cb, ct in ctx.find_calls(b, r"^darling_core::error::Error::missing_field$"):
            for d in ctx.pc_strs(b, cb):
                if any(re.match(r"^_%d\.0=False$" % slot, a) for a in d) and any("from_none()" in a and a.endswith("=False") for a in d):
                    has_check = True
        ctx.ob("C07.B.expect-has-presence-check", b.key, ev, has_check, "slot _%d: a missing_field push under slot.0=false ∧ from_none()=None must exist" % slot)
    else:
        # forwarded attrs: a dominating definition Some(..) or handle(..)
        defs = [d for d in b.defs().get(cur, []) if d[2] in ("assign", "call")]
        ok = False
        why = "no dominating Some(..)/handle(..) definition of _%d" % cur
        s, _ = ctx.sym(b)
        for d in defs:
            dblk = d[0]
            if not b.dominates(dblk, blk):
                continue
            e = s.show(s._def_expr(d, 0))
            is_some = e.startswith("core::option::Option::Some{")
            is_handle = e.startswith("darling_core::error::Accumulator::handle(")
            if not (is_some or is_handle):
                continue
            # no other definition between this one and the expect
            after = b.reachable(dblk, False)
            clobber = [d2 for d2 in defs if d2 is not d and d2[0] in after and d2[0] != dblk and blk in b.reachable(d2[0], False)]
            if clobber:
                why = "definition at bb%d may be overwritten at bb%d" % (dblk, clobber[0][0])
                continue
            if is_some:
                ok, why = True, "Some(..) at bb%d is the reaching definition" % dblk
            else:
                dis = ctx.pc_strs(b, blk)
                ok = bool(dis) and all(ctx._sat(x, fin) for x in dis)
                why = "handle(..) at bb%d is the reaching definition; expect sits after finish()=Ok: %s" % (dblk, ok)
        ctx.ob("C07.B.expect-forwarded", b.key, ev, ok, why)

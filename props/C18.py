"""C18 – shape validation accepts exactly the declared shapes.

Decided: ShapeSet::contains_shape (E over Shape; Newtype → newtype ∨ tuple, the others their own
flag), insert (variant ↔ same-named flag), check (Ok iff contains_shape, else the
expected-shape error), the AsShape impls (len = 1 → Newtype in both the syn and ast impls, S),
DataShape::set_word (word constant ↔ same-named flag), DataShape::to_tokens (each Shape token
under any ∨ its flag), DeriveInputShapeSet::from_list prefix routing, the generated
__validate_body template and every derived instance [H+B] (is_empty guards the wrong-kind error,
one handle(check(variant)) per variant, every syn::Data variant ends in Ok/Err – F5), the bound
of ShapeSet's Display indexing.  Not decided: the 2^11 table as values."""
import re

from vlib import resalg, mir, tpl, derived, scan
from . import common

META = dict(
    level="the verdict table is decided structurally (flag ↔ word ↔ shape identity and the newtype/tuple asymmetry) on every path of the run-time API, the option parser, the generator and each derived validator",
    technique="static analysis: exhaustive-switch and field-identity rules, template emission guards, derived-MIR switch recovery",
)
U = "darling_core::util::shape::"
O = "darling_core::options::shape::"


def variant_returns(ctx, f, base):
    out = {}
    for blk, e in ctx.ret_exprs(f):
        for d in ctx.pc_strs(f, blk):
            for a in d:
                m = re.match(r"^discr\(%s\)=(\w+)$" % re.escape(base), a)
                if m:
                    out.setdefault(m.group(1), set()).add(e)
    return out


def run(ctx):
    core = ctx.core("on")
    f = ctx.fn(U + "ShapeSet::contains_shape")
    if f:
        got = {}
        for d0 in f.defs().get(0, []):
            blk, i, kind, node = d0
            if f.is_cleanup(blk) or kind != "assign":
                continue
            e = ctx.expr(f, node["r"])
            for d in ctx.pc_strs(f, blk):
                v = [m.group(1) for a in d for m in [re.match(r"^discr\(a2\)=(\w+)$", a)] if m]
                rest = sorted(a for a in d if not a.startswith("discr(a2)="))
                if v:
                    got.setdefault(v[0], []).append((e, rest))
        ok = set(got) == {"Named", "Tuple", "Unit", "Newtype"}
        ctx.ob("C18.E.contains-shape-exhaustive", f.key, "four shapes", ok, "%s" % sorted(got))
        # the set of (shape, flags) under which the answer is true, however the arms are cut
        tc = ctx.true_conditions(f)
        def holds(shape, flags):
            """is the answer true for `shape` under this total assignment of the flags?"""
            for d in tc:
                if "discr(a2)=%s" % shape not in d:
                    continue
                if all(("self.%s=%s" % (k, v)) in d or not any(a.startswith("self.%s=" % k) for a in d) for k, v in flags.items()):
                    if all(a.startswith("discr(a2)=") or re.match(r"^self\.(named|tuple|newtype|unit)=(True|False)$", a) for a in d):
                        return True
            return False
        import itertools
        for v, flag in (("Named", "named"), ("Tuple", "tuple"), ("Unit", "unit")):
            ok = True
            for vals in itertools.product([True, False], repeat=4):
                fl = dict(zip(("named", "tuple", "newtype", "unit"), vals))
                ok = ok and (holds(v, fl) == fl[flag])
            ctx.ob("C18.G.own-flag", f.key, "Shape::%s" % v, ok, "true under %s" % [sorted(d) for d in tc if "discr(a2)=%s" % v in d])
        ok = True
        for vals in itertools.product([True, False], repeat=4):
            fl = dict(zip(("named", "tuple", "newtype", "unit"), vals))
            ok = ok and (holds("Newtype", fl) == (fl["newtype"] or fl["tuple"]))
        nt = [sorted(d) for d in tc if "discr(a2)=Newtype" in d]
        ctx.ob("C18.G.tuple-admits-newtype", f.key, "Shape::Newtype → newtype || tuple", ok, "%s" % nt)
    f = ctx.fn(U + "ShapeSet::insert")
    if f:
        m = {}
        for blk, fld, st in ctx.field_writes(f, 1):
            if True:
                for d in ctx.pc_strs(f, blk):
                    for a in d:
                        mm = re.match(r"^discr\(a2\)=(\w+)$", a)
                        if mm:
                            m[mm.group(1)] = (fld, ctx.expr(f, st["r"]))
        ctx.ob("C18.G.insert-sets-same-named-flag", f.key, "variant ↔ flag", m == {"Named": ("named", "true"), "Tuple": ("tuple", "true"), "Unit": ("unit", "true"), "Newtype": ("newtype", "true")}, "%s" % m)
    f = ctx.fn(U + "ShapeSet::check")
    if f:
        oks = ctx.find_aggregates(f, r"^core::result::Result$", "Ok")
        errs = ctx.find_calls(f, r"^darling_core::error::Error::unsupported_shape_with_expected$")
        ctx.ob("C18.G.check-shape", f.key, "one Ok, one error", len(oks) == 1 and len(errs) == 1, "%d/%d" % (len(oks), len(errs)))
        C = r"ShapeSet::contains_shape\(self, .*AsShape(>)?::as_shape\(a2\)\)"
        for blk, i, st in oks:
            ctx.requires("C18.G.ok-iff-contained", f, blk, "Ok(())", [C + "=True"])
        for blk, t in errs:
            ctx.requires("C18.G.err-iff-not-contained", f, blk, "unsupported_shape_with_expected", [C + "=False"])
            ctx.ob("C18.G.error-names-expectation", f.key, "expected = self", ctx.expr(f, t["args"][1]) == "self" and "Shape::description(" in ctx.expr(f, t["args"][0]), "%s" % [ctx.expr(f, a)[:80] for a in t["args"]])
    f = ctx.fn(U + "ShapeSet::contains")
    if f:
        rs = ctx.ret_values(f)
        ctx.ob("C18.G.contains-same-verdict", f.key, "contains_shape(fields.as_shape())", len(rs) == 1 and re.match(r"^darling_core::util::shape::ShapeSet::contains_shape\(self, .*as_shape\(a2\)\)$", rs[0]) is not None, "%s" % rs)
    f = ctx.fn(U + "ShapeSet::is_empty")
    if f:
        tru = [(blk, e) for blk, e in ctx.ret_exprs(f)]
        # true only when all four flags are false
        pcs = []
        for d0 in f.defs().get(0, []):
            blk, i, kind, node = d0
            if kind == "assign" and not f.is_cleanup(blk):
                e = ctx.expr(f, node["r"])
                for d in ctx.pc_strs(f, blk):
                    pcs.append((e, sorted(d)))
        tc = ctx.true_conditions(f)
        ctx.ob("C18.G.is-empty-all-four", f.key, "empty iff all four flags are off", tc == [{"self.named=False", "self.newtype=False", "self.tuple=False", "self.unit=False"}], "true under %s" % tc)
    # AsShape siblings
    got = {}
    for key, lenexpr in (("<darling_core::ast::data::Fields<T> as darling_core::util::shape::AsShape>::as_shape", r"len\(self\.fields\)"),
                         ("<syn::data::FieldsUnnamed as darling_core::util::shape::AsShape>::as_shape", r"len\(self\.unnamed\)")):
        f = ctx.fn(key)
        if not f:
            continue
        for conds, val in resalg.cases(ctx, f):
            m_ = re.match(r"^darling_core::util::shape::Shape::(Newtype|Tuple)\{\}$", val)
            if m_:
                one = any(re.match(r"^len\(.*\)=1$", c) for c in conds)
                notone = ctx._sat(set(conds), ("ne", r"^len\(.*\)$", 1))
                prev = got.get((key, m_.group(1)))
                now = "len=1" if one else ("len!=1" if notone else "?")
                got[(key, m_.group(1))] = now if prev in (None, now) else "?"
    ctx.ob("C18.S.newtype-iff-one-field", "AsShape impls", "ast::Fields and syn::FieldsUnnamed agree",
           sorted(got.values()) == ["len!=1", "len!=1", "len=1", "len=1"] and all((v == "len=1") == (k[1] == "Newtype") for k, v in got.items()), "%s" % got)
    f = ctx.fn("<syn::data::Fields as darling_core::util::shape::AsShape>::as_shape")
    if f:
        vr = variant_returns(ctx, f, "self")
        ok = set(vr) == {"Named", "Unnamed", "Unit"} and vr["Unit"] == {"darling_core::util::shape::Shape::Unit{}"} and all("as_shape((self as %s).0)" % k in list(vr[k])[0] for k in ("Named", "Unnamed"))
        ctx.ob("C18.E.syn-fields-as-shape", f.key, "Named/Unnamed delegate, Unit → Unit", ok, "%s" % vr)
    f = ctx.fn("<darling_core::ast::data::Fields<T> as darling_core::util::shape::AsShape>::as_shape")
    if f:
        m = {}
        for conds, val in resalg.cases(ctx, f):
            sh = re.match(r"^darling_core::util::shape::Shape::(\w+)\{\}$", val)
            for a in conds:
                mm = re.match(r"^discr\(self\.style\)=(\w+)$", a)
                if mm:
                    m.setdefault(mm.group(1), set()).add(sh.group(1) if sh else val)
        ctx.ob("C18.E.ast-fields-as-shape", f.key, "Tuple→{Newtype,Tuple}, Struct→Named, Unit→Unit", m == {"Tuple": {"Newtype", "Tuple"}, "Struct": {"Named"}, "Unit": {"Unit"}}, "%s" % m)
    # ---------------------------------------------------------------- options: words
    f = ctx.fn(O + "DataShape::set_word")
    if f:
        m = {}
        for blk, fld, st in ctx.field_writes(f, 1):
            if True:
                words = None
                for d in ctx.pc_strs(f, blk):
                    pos = {mm.group(1) for a in d for mm in [re.search(r', "(\w+)"\)=True$', a)] if mm}
                    words = pos if words is None else words & pos
                for w in words or []:
                    m[w] = fld
        ctx.ob("C18.G.word-sets-same-named-flag", f.key, "word ↔ flag", m == {w: w for w in ("newtype", "named", "tuple", "unit", "any")}, "%s" % m)
        pre = ctx.find_calls(f, r"trim_start_matches")
        ctx.ob("C18.G.word-prefix-stripped", f.key, "word.trim_start_matches(self.prefix)", len(pre) == 1 and ctx.expr(f, pre[0][1]["args"][1]) == "self.prefix", "%s" % [[ctx.expr(f, a) for a in t["args"]] for _, t in pre])
    f = ctx.fn("<darling_core::options::shape::DeriveInputShapeSet as darling_core::from_meta::FromMeta>::from_list")
    if f:
        sw = ctx.find_calls(f, r"DataShape::set_word$")
        tg = {}
        for blk, t in sw:
            # the set may be chosen in each branch or once in front of a shared call
            for conds, target in resalg.expr_cases(ctx, f, t["args"][0]):
                for d in ctx.pc_strs(f, blk) or [set()]:
                    pos = {mm.group(1) for a in list(d) + list(conds) for mm in [re.search(r'starts_with.*"(\w+_)"\)=True$', a)] if mm}
                    if len(pos) == 1:
                        tg[pos.pop()] = target
        ctx.ob("C18.G.prefix-routing", f.key, "enum_* → enum_values, struct_* → struct_values", {k: v.rsplit(".", 1)[-1] for k, v in tg.items()} == {"enum_": "enum_values", "struct_": "struct_values"}, "%s" % tg)
        anys = ctx.find_field_assigns(f, "any")
        ok = len(anys) == 1 and all(ctx._sat(d, r'"any"\)=True') for d in ctx.pc_strs(f, anys[0][0]))
        ctx.ob("C18.G.any-word", f.key, "`any` sets any", ok, "%d" % len(anys))
    f = ctx.fn("<darling_core::options::shape::DeriveInputShapeSet as core::default::Default>::default")
    if f:
        rs = ctx.ret_values(f)
        ok = len(rs) == 1 and 'enum_values: ' not in rs[0] and re.search(r'DataShape::new\("enum_"\), .*DataShape::new\("struct_"\)', rs[0]) is not None
        ctx.ob("C18.G.prefixes", f.key, "enum_values: new(\"enum_\"), struct_values: new(\"struct_\")", ok, "%s" % [r[:200] for r in rs])
    # DataShape::to_tokens: each Shape token under any ∨ own flag
    f = ctx.fn("<darling_core::options::shape::DataShape as quote::to_tokens::ToTokens>::to_tokens")
    if f:
        T = tpl.Templates(f)
        m = {}
        for tk in T.all_tokens(("ident",)):
            if tk.text in ("Named", "Tuple", "Newtype", "Unit"):
                ds = ctx.pc_strs(f, tk.blk)
                # the token may be a row of a table that is filtered before it is emitted
                for locs, dnf in ctx.filtered_table_rows(f):
                    if any(tk.stream in T.stream_alts(l) for l in locs if l is not None):
                        ds = [d0 | d1 for d0 in (ds or [set()]) for d1 in dnf]
                flag = tk.text.lower()
                ok = bool(ds) and all(ctx._sat(d, r"^self\.any=True$") or ctx._sat(d, r"^self\.%s=True$" % flag) for d in ds)
                m[tk.text] = ok
                ctx.ob("C18.G.shape-token-under-own-flag", f.key, "Shape::%s" % tk.text, ok, "emitted under %s" % [sorted(d) for d in ds])
        ctx.ob("C18.G.shape-tokens-complete", f.key, "four shape tokens", set(m) == {"Named", "Tuple", "Newtype", "Unit"}, "%s" % sorted(m))
        txt = " | ".join(T.text(s) for s in T.root_streams())
        ctx.ob("C18.H.shape-set-constructor", f.key, "::darling::util::ShapeSet::new(vec![..])", ":: darling :: util :: ShapeSet :: new ( vec ! [" in txt, txt[:200])
    # ---------------------------------------------------------------- generated validator
    f = ctx.fn("<darling_core::options::shape::DeriveInputShapeSet as quote::to_tokens::ToTokens>::to_tokens")
    if f:
        T = tpl.Templates(f)
        body = None
        # the generator and the private helpers it may have been cut into
        group = [(g_, tpl.Templates(g_)) for g_ in ctx.generator_group(f)]
        T0 = T
        for g_, Tg in group:
            for s in Tg.by_stream:
                txt_ = Tg.text(s)
                if "match * __body" in txt_ and "DataShape⟩" in txt_ and Tg.by_stream[s][0].kind != "append" and (body is None or len(txt_) < len(body)):
                    body, T0, sets_stream = txt_, Tg, s
        ctx.ob("C18.H.validator-template", f.key, "match *__body { Enum, Struct, Union }", body is not None, "template found")
        if body:
            # generated locals are compared up to renaming; which set is bound to which local comes
            # from the interpolated expressions, in order
            body = tpl.alpha(body)
            exprs = [(tk.expr or "") for tk in T0.stream_tokens(sets_stream, locals_too=True) if tk.kind == "interp" and tk.ty and "DataShape" in tk.ty]
            V = r"(\$\d+)"
            mb = re.search(r"let %s = ⟨darling_core::options::shape::DataShape⟩ ; let %s = ⟨darling_core::options::shape::DataShape⟩ ;" % (V, V), body)
            which = dict(zip(mb.groups(), exprs)) if mb and len(exprs) == 2 else {}
            ctx.ob("C18.H.check-sets", f.key, "the two shape sets are bound to locals", sorted(which.values()) == ["self.enum_values", "self.struct_values"], "bindings %s" % which)
            me = re.search(r"Data :: Enum \( ref %s \) => \{ if %s \. is_empty \( \) \{ (?:return )?:: darling :: export :: Err \( :: darling :: Error :: unsupported_shape_with_expected \( \"enum\"" % (V, V), body)
            ok = bool(me) and which.get(me.group(2)) == "self.enum_values"
            ctx.ob("C18.H.enum-needs-enum-words", f.key, "enum with no enum_* word → error", ok, body[:200])
            ms = re.search(r"Data :: Struct \( ref %s \) => \{ if %s \. is_empty \( \) \{ (?:return )?:: darling :: export :: Err \( :: darling :: Error :: unsupported_shape_with_expected \( \"struct\"" % (V, V), body)
            ok = bool(ms) and which.get(ms.group(2)) == "self.struct_values"
            ctx.ob("C18.H.struct-needs-struct-words", f.key, "struct with no struct_* word → error", ok, "struct arm")
            ok = False
            if me:
                D, E = re.escape(me.group(1)), re.escape(me.group(2))
                ok = bool(re.search(r"for %s in & %s \. variants \{ %s \. handle \( %s \. check \( \1 \) \) ; \} \2 \. finish \( \)" % (V, D, V, E), body))
            ctx.ob("C18.H.every-variant-checked", f.key, "one handle(check(variant)) per variant, finish()", ok, "enum arm")
            ok = bool(ms) and ("%s . check ( %s )" % (ms.group(2), ms.group(1))) in body
            ctx.ob("C18.H.struct-checked", f.key, "struct_check.check(struct_data)", ok, "struct arm")
            un = re.search(r"Data :: Union \( _ \) => (.*?) , \}", body)
            ok = bool(un) and ("Err" in un.group(1)) and "unreachable" not in un.group(1)
            ctx.ob("C18.H.union-is-error-not-crash", f.key, "syn::Data::Union arm", ok, "F5: the union arm of the generated validator is `%s` – a union satisfies no word but must be an error, never a crash" % (un.group(1) if un else "?"))
        # wiring: #st = self.struct_values, #en = self.enum_values; any → Ok(())
        wired = sorted((tk.expr or "") for g_, Tg in group for tk in Tg.events if tk.kind == "interp" and tk.ty and "DataShape" in tk.ty)
        ctx.ob("C18.wire.check-sets", f.key, "interpolated sets", wired == ["self.enum_values", "self.struct_values"], "%s" % wired)
        for s in T.by_stream:
            if T.text(s) == ":: darling :: export :: Ok ( ( ) )" and any(tk.kind == "ident" and tk.text == "Ok" for tk in T.by_stream[s]):
                ctx.requires("C18.G.any-accepts-everything", f, T.by_stream[s][0].blk, "Ok(()) body", [r"^self\.any=True$"])
    # ---------------------------------------------------------------- [B] derived validators
    pop = [b for b in derived.population(ctx) if b.key.endswith("::__validate_body")]
    n = 0
    for b in pop:
        n += 1
        D = derived.DerivedFn(b)
        sv = None
        for blk in sorted(b.normal_blocks()):
            s2 = scan.switch_variants(b, blk)
            if s2 and s2[0] == "syn::derive::Data":
                sv = s2
        if not sv:
            # `any`: body is Ok(())
            rs = ctx.ret_values(b)
            ctx.ob("C18.B.any-body", "<derived receiver>::__validate_body", "Ok(())", rs == ["core::result::Result::Ok{tuple{}}"], "%s in %s" % (rs, b.key))
            continue
        adt, allv, m, other, r = sv
        bad = []
        for v in allv:
            tb = m.get(v, other)
            k = scan.reaches_panic(b, tb)
            if k in ("panic", "diverge"):
                bad.append(v)
        ctx.ob("C18.B.every-data-kind-is-verdict", "<derived receiver>::__validate_body", "syn::Data variants ending in a panic: %s" % bad, not bad, "F5: %s panics on syn::Data::%s" % (b.key, bad))
        chk = D.calls_to(r"^darling_core::util::shape::ShapeSet::check$")
        ctx.ob("C18.B.uses-shape-set-check", b.key, "ShapeSet::check", len(chk) == 2, "%d check calls (struct + per variant)" % len(chk))
        emp = D.calls_to(r"^darling_core::util::shape::ShapeSet::is_empty$")
        ctx.ob("C18.B.wrong-kind-guard", b.key, "is_empty guards", len(emp) == 2, "%d" % len(emp))
    ctx.floor("C18.B", "derived validators", n, 5)
    # the declared set reaches the generator as declared: options.supports -> Impl.supports is the identity
    # (a set dropped or narrowed on the way means no validator, i.e. everything is accepted)
    for rx, what in ((r"impl core::convert::From<&'a darling_core::options::from_derive::FdiOptions> for darling_core::codegen::from_derive_impl::FromDeriveInputImpl<'a>>::from$", "FdiOptions -> FromDeriveInputImpl"),
                     (r"impl core::convert::From<&'a darling_core::options::from_variant::FromVariantOptions> for darling_core::codegen::from_variant_impl::FromVariantImpl<'a>>::from$", "FromVariantOptions -> FromVariantImpl")):
        cands = ctx.fns_matching(rx)
        if not cands:
            ctx.anchor_missing("C18.wire.supports-identity", rx, "conversion not found")
            continue
        g = cands[0]
        aggs = ctx.find_aggregates(g, r"Impl$")
        vals = []
        for blk, i, st in aggs:
            r = st["r"]
            for n_, o in zip(r["fields"], r["ops"]):
                if n_ == "supports":
                    vals.append(ctx.expr(g, o))
        ctx.ob("C18.wire.supports-identity", g.key, what, vals == ["a1.supports"], "Impl.supports <= %s" % vals)
    for name in ("from_derive_impl::FromDeriveInputImpl<'_>", "from_variant_impl::FromVariantImpl<'_>"):
        g = ctx.fn(common.TOK % name)
        if g:
            # the validator / check is interpolated from self.supports, whatever it contains
            srcs = [ctx.expr(b2, t["args"][0]) for b2 in [g] for _, t in ctx.find_calls(b2, r"^core::option::Option::<T>::map$") if ctx.expr(b2, t["args"][0]) == "self.supports"]
            matched = [1 for blk in g.normal_blocks() if False]
            sw = [ctx.pc_strs(g, tk.blk) for c in [g] + ctx.closures_of(g) for tk in tpl.Templates(c).events if tk.kind == "interp" and tk.ty and "Shape" in tk.ty]
            ctx.ob("C18.wire.supports-emitted", g.key, "supports.map(|s| quote!(.. #s ..))", len(srcs) == 1 or any(bool(pcs) and all(ctx._sat(d, r"^is_some\(self\.supports\)=True$") and all(a_ == "is_some(self.supports)=True" or "self.base.data" in a_ for a_ in d) for d in pcs) for pcs in sw),
                   "the shape set is interpolated from self.supports under no other condition: map sources %s, interpolation conditions %s" % (srcs, sw))
    # callers in element-level derives: variant-level supports
    f = ctx.fn(common.TOK % "from_variant_impl::FromVariantImpl<'_>")
    if f:
        ok = False
        for c in [f] + ctx.closures_of(f):
            Tc = tpl.Templates(c)
            for s in Tc.by_stream:
                if re.match(r"^__errors \. handle \( ⟨darling_core::options::shape::DataShape⟩ \. check \( & (⟨proc_macro2::TokenStream⟩|__\w+) \. fields \) \) ;$", Tc.text(s)):
                    ok = True
        ctx.ob("C18.H.variant-level-supports", f.key, "__errors.handle(#shape.check(&#input.fields))", ok, "variant-level supports template")
    return ctx.finish(
        explanation="Flag/word/shape identity rules on ShapeSet, AsShape, DataShape and DeriveInputShapeSet; emission guards of the generated validator; %d derived validators." % n,
        assumptions=["the 2^11 verdict table as values is not enumerated; it is determined by the decided flag identities"],
    )

"""C06 – the derive macros are total: they diagnose, they never crash.

Decided (all on the generator's MIR, hence for all receiver declarations): the panic census of
derive-time code with its guard rules (C), exhaustive wildcard switches (E), the accumulator
typestate in options/* (T), the error-discipline census (D), 'one impl or diagnostics' on the six
entry points (X) and the proc-macro entry table (S).
Not decided: panics inside syn/quote on inputs darling forwards unchecked."""
import re

from vlib import resalg, mir, scan
from . import common

ENTRY = {
    "darling_core::derive::from_meta": "darling_core::options::from_meta::FromMetaOptions",
    "darling_core::derive::from_attributes": "darling_core::options::from_attributes::FromAttributesOptions",
    "darling_core::derive::from_derive_input": "darling_core::options::from_derive::FdiOptions",
    "darling_core::derive::from_field": "darling_core::options::from_field::FromFieldOptions",
    "darling_core::derive::from_type_param": "darling_core::options::from_type_param::FromTypeParamOptions",
    "darling_core::derive::from_variant": "darling_core::options::from_variant::FromVariantOptions",
}
MACRO_TABLE = {
    "darling_macro::derive_from_meta": "darling_core::derive::from_meta",
    "darling_macro::derive_from_attributes": "darling_core::derive::from_attributes",
    "darling_macro::derive_from_input": "darling_core::derive::from_derive_input",
    "darling_macro::derive_field": "darling_core::derive::from_field",
    "darling_macro::derive_type_param": "darling_core::derive::from_type_param",
    "darling_macro::derive_variant": "darling_core::derive::from_variant",
}
IMPLS = ["from_meta_impl::FromMetaImpl<'_>", "from_attributes_impl::FromAttributesImpl<'_>", "from_derive_impl::FromDeriveInputImpl<'_>",
         "from_field::FromFieldImpl<'_>", "from_type_param::FromTypeParamImpl<'_>", "from_variant_impl::FromVariantImpl<'_>"]


def derive_bodies(ctx, core):
    return [b for b in ctx.all_bodies(core) if common.derive_file(b) and not scan.is_test_body(b) and not b.derived]


def run(ctx):
    core = ctx.core("on")
    bodies = derive_bodies(ctx, core)
    ctx.floor("C06.scope", "derive-time function bodies", len(bodies), 250)

    # ------------------------------------------------------------ C: census + guards
    sites = common.panic_census(ctx, "C06.C", bodies, "derive")
    ctx.floor("C06.C", "panic-capable sites in derive-time code", len(sites), 35)
    n_e = common.exhaustive_wildcards(ctx, "C06.E.wildcard", bodies)
    ctx.floor("C06.E", "enum switches whose otherwise edge panics and whose table row demands exhaustiveness", n_e, 8)

    # ------------------------------------------------------------ interprocedural guards named in the table
    # will_forward_any() is true only under filter = Some
    f = ctx.fn("darling_core::codegen::attrs_field::ForwardAttrs::<'_>::will_forward_any")
    if f:
        tc = ctx.true_conditions(f)
        ctx.ob("C06.G.will_forward_any", f.key, "true result", bool(tc) and all("is_some(self.filter)=True" in d for d in tc), "true under %s" % [sorted(d) for d in tc])
    # FieldsGen::{declarations, require_fields}: only called under is_struct()
    for callee in ("darling_core::codegen::variant_data::FieldsGen::<'a>::declarations", "darling_core::codegen::variant_data::FieldsGen::<'a>::require_fields"):
        n = 0
        for b in bodies:
            for blk, t in ctx.find_calls(b, "^" + re.escape(callee) + "$"):
                n += 1
                ctx.requires("C06.who.fieldsgen", b, blk, "call " + callee.rsplit("::", 1)[1], [r"^discr\(self\.0\.data\.style\)=Struct$"])
        ctx.floor("C06.who.fieldsgen", "callers of " + callee.rsplit("::", 1)[1], n, 1)
    # DefaultExpression::Inherit is constructed only by InputField::with_inherited
    makers = set()
    for b in ctx.all_bodies(core):
        if scan.is_test_body(b) or b.derived:
            continue
        if ctx.find_aggregates(b, r"^darling_core::options::DefaultExpression$", "Inherit"):
            makers.add(b.key)
    ctx.ob("C06.who.inherit-only-in-field", "darling_core::options::DefaultExpression::Inherit", "constructors",
           makers == {"darling_core::options::input_field::InputField::with_inherited"}, "constructed in %s" % sorted(makers))
    # Core::start mirrors di.data and rejects unions; every …Options::new starts from it before parse_body(&di.data)
    f = ctx.fn("darling_core::ast::data::Data::<V, F>::try_empty_from")
    if f:
        errs = ctx.find_aggregates(f, r"^core::result::Result$", "Err")
        ok = False
        for blk, i, st in errs:
            d = ctx.pc_strs(f, blk)
            if d and all(ctx._sat(x, r"discr\(a1\)=Union") for x in d):
                ok = True
        ctx.ob("C06.who.union-rejected-first", f.key, "Err under Union", ok, "try_empty_from must return Err on the Union arm")
        for blk, i, st in ctx.find_aggregates(f, r"^core::result::Result$", "Ok"):
            ctx.forbids("C06.who.union-rejected-first", f, blk, "Ok", [r"discr\(a1\)=Union"])
    f = ctx.fn("darling_core::options::core::Core::start")
    if f:
        c = ctx.find_calls(f, r"Data::<V, F>::try_empty_from$")
        ok = len(c) == 1 and ctx.expr(f, c[0][1]["args"][0]) == "a1.data"
        ctx.ob("C06.who.parse-body-dispatch", f.key, "try_empty_from(&di.data)", ok, "Core::start must mirror the kind of di.data: %s" % [ctx.expr(f, t["args"][0]) for _, t in c])
    for entry, opts in ENTRY.items():
        f = ctx.fn(opts + "::new")
        if not f:
            continue
        starts = ctx.find_calls(f, r"::(Core|OuterFrom)::start$")
        pb = ctx.find_calls(f, r"ParseData>::parse_body$")
        ok = len(starts) == 1 and len(pb) == 1 and ctx.expr(f, starts[0][1]["args"][0]) == "a1" and ctx.expr(f, pb[0][1]["args"][1]) == "a1.data"
        ctx.ob("C06.who.parse-body-dispatch", f.key, "start(di) … parse_body(&di.data)", ok,
               "start args %s, parse_body args %s" % ([ctx.expr(f, t["args"][0]) for _, t in starts], [ctx.expr(f, t["args"][1]) for _, t in pb]))
        if ok:
            ctx.requires("C06.who.union-rejected-first", f, pb[0][0], "parse_body after start()?", [r"is_ok\(.*::start\(a1\)\)=True"])
    f = ctx.fn("darling_core::options::outer_from::OuterFrom::start")
    if f:
        c = ctx.find_calls(f, r"::Core::start$")
        ctx.ob("C06.who.parse-body-dispatch", f.key, "Core::start(di)", len(c) == 1 and ctx.expr(f, c[0][1]["args"][0]) == "a1", "OuterFrom::start delegates to Core::start(di)")

    # Flag (the type of the derive-time `flatten` option) relies on `()` rejecting every non-word form
    common.unit_rejects_non_words(ctx, "C06.who.unit-overrides-only-from-word", core)
    # ------------------------------------------------------------ T / D on derive-time code
    n = common.acc_typestate(ctx, "C06.T.no-live-drop", bodies)
    ctx.floor("C06.T", "derive-time functions holding an accumulator", n, 8)
    common.error_discipline(ctx, "C06.D", bodies)

    # ------------------------------------------------------------ X: one impl or diagnostics
    for entry, opts in ENTRY.items():
        f = ctx.fn(entry)
        if not f:
            continue
        # the entry's value as a case table (a shared helper or macro between the entry and the
        # two exits is looked through): Ok(options) => the impl's tokens, Err(e) => e.write_errors()
        src = "%s::new(a1)" % opts
        got = sorted(resalg.cases(ctx, f))
        ok_rows = [(c, v) for c, v in got if c == ["is_ok(%s)=True" % src]]
        err_rows = [(c, v) for c, v in got if c == ["is_ok(%s)=False" % src]]
        ctx.ob("C06.X.entry-shape", f.key, "new(input) decides between two exits", len(got) == 2 and len(ok_rows) == 1 and len(err_rows) == 1, "cases %s" % [(c, v[:100]) for c, v in got])
        for c, v in ok_rows:
            ctx.ob("C06.X.impl-iff-ok", f.key, "into_token_stream", re.match(r"^(<.* as )?quote::to_tokens::ToTokens(>)?::into_token_stream\(\(%s as Ok\)\.0\)$" % re.escape(src), v) is not None, v[:200])
        for c, v in err_rows:
            ctx.ob("C06.X.errors-iff-err", f.key, "write_errors", v == "darling_core::error::Error::write_errors((%s as Err).0)" % src, v[:200])
        ctx.ob("C06.X.never-nothing", f.key, "return", bool(got) and all(("into_token_stream(" in v or "write_errors(" in v) for c, v in got), "returns %s" % [v[:60] for c, v in got])
    # each options type's ToTokens builds the matching Impl and forwards to its to_tokens
    for entry, opts in ENTRY.items():
        f = ctx.fn("<%s as quote::to_tokens::ToTokens>::to_tokens" % opts)
        if not f:
            continue
        tt = [t for _, t in ctx.find_calls(f, r"ToTokens>::to_tokens$")]
        ok = len(tt) == 1 and "Impl" in (mir.callee_info(tt[0]).get("resolved_with_args") or "")
        ctx.ob("C06.X.options-to-impl", f.key, "Impl::from(self).to_tokens(tokens)", ok, "%s" % [mir.callee_info(t).get("resolved_with_args") for t in tt])
    # every …Impl::to_tokens calls wrap exactly once on every returning path
    for name in IMPLS:
        f = ctx.fn(common.TOK % name)
        if not f:
            continue
        wraps = ctx.find_calls(f, r"OuterFromImpl<.*>>::wrap")
        ret = [b for b in sorted(f.normal_blocks()) if f.term(b)["k"] == "return"]
        ok = bool(wraps) and bool(ret)
        # every return is reached through exactly one wrap: (a) removing wrap blocks makes return unreachable,
        # (b) no wrap block can reach another wrap block
        if ok:
            avoid = {b for b, _ in wraps}
            reach = f.reachable(0, False, avoid=avoid)
            ok = not any(r in reach for r in ret)
            for b, t in wraps:
                after = f.reachable(t["target"], False) if t["target"] is not None else set()
                if any(b2 in after for b2, _ in wraps):
                    ok = False
        ctx.ob("C06.X.wrap-exactly-once", f.key, "wrap", ok, "%d wrap call sites; every normal return must pass through exactly one" % len(wraps))
    f = ctx.fn("darling_core::codegen::outer_from_impl::OuterFromImpl::wrap")
    if f:
        idents = push_idents(f)
        ctx.ob("C06.X.wrap-emits-impl", f.key, "tokens impl … for", idents.count("impl") == 1 and "for" in idents and "automatically_derived" in idents, "idents pushed: %s" % idents)
    f = ctx.fn("darling_core::error::Error::write_errors")
    if f:
        c = ctx.find_calls(f, r"^syn::error::Error::into_compile_error$")
        rets = ctx.ret_values(f)
        ctx.ob("C06.X.write-errors-compile-error", f.key, "into_compile_error", len(c) == 1 and len(rets) == 1 and "into_compile_error(" in rets[0] and "::from(self))" in rets[0], "returns %s" % rets)

    # ------------------------------------------------------------ S: the proc-macro entry table
    mcs = [c for c in ctx.crates("darling_macro") if not c["test"]]
    if not mcs:
        ctx.anchor_missing("C06.S.macro-table", "darling_macro", "no fact file")
    else:
        mb = ctx.bodies(mcs[0])
        for mfn, target in MACRO_TABLE.items():
            lst = mb.get(mfn)
            if not lst:
                ctx.anchor_missing("C06.S.macro-table", mfn, "proc-macro entry not found")
                continue
            b = lst[0]
            calls = [mir.callee_of(t) for _, t in b.calls() if (mir.callee_of(t) or "").startswith("darling_core::derive::")]
            ctx.ob("C06.S.macro-table", mfn, "derive fn", calls == [target], "calls %s, table says %s" % (calls, target))
    return ctx.finish(
        explanation="Panic census with guard path-conditions over %d derive-time bodies (options/, codegen/, usage/, derive.rs), exhaustive-switch rule on "
                    "wildcard panics, accumulator typestate, error-discipline census, and the one-impl-or-diagnostics shape of the six entry points." % len(bodies),
        assumptions=["syn and quote do not panic on the inputs darling forwards to them, except through the partial APIs the census lists",
                     "rustc_private MIR of darling_core (feature suggestions on) is the program that runs"],
    )


def ctx_expr(body, a):
    from vlib import sym
    s = sym.Sym(body)
    return s.show(s.operand(a))


def push_idents(body):
    out = []
    for blk, t in body.calls():
        c = mir.callee_of(t) or ""
        if c.startswith("quote::__private::push_ident") or c.startswith("quote::__private::push_lifetime"):
            for a in t["args"][1:2]:
                e = ctx_expr(body, a)
                if e.startswith('"'):
                    out.append(e[1:-1])
    return out

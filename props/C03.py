"""C03 – errors carry the most specific source span and never lose it.

Decided: first-writer-wins and the who-may-write rule for `Error.span`; every default dispatcher
and every override of one attaches its own node's span on the way out (P); the span census of
every error construction in the run-time library and in the templates (classified, closed);
the generated extractor's `.map_err(|e| e.with_span(&__inner).at(..))` [A,H + B]; bundles
handing their span to unspanned leaves (dataflow on into_vec); the syn::Error conversion.
Not decided: that the span is the right token range (a run-time observation)."""
import re

from vlib import resalg, mir, scan, tpl, derived
from . import common

META = dict(
    level="structural necessary conditions of span preservation on every path: guarded single writer, dispatcher exits through with_span(own node), closed census of error constructions, template and derived-code extraction shape",
    technique="static analysis: who-may-write, path-condition guards, def-use census of error constructors, template IR rules",
)
E = "darling_core::error::Error::"
CTORS = ["custom", "duplicate_field", "duplicate_field_path", "missing_field", "unknown_field", "unknown_field_path", "unknown_field_with_alts",
         "unknown_field_path_with_alts", "unsupported_shape", "unsupported_shape_with_expected", "unsupported_format", "unexpected_type",
         "unknown_value", "too_few_items", "too_many_items"]
SELF_SPANNED = ["unexpected_expr_type", "unexpected_lit_type", "unknown_lit_str_value"]
ABSENCE = {"missing_field", "unsupported_shape", "unsupported_shape_with_expected", "too_few_items", "too_many_items"}
NODE_TYPES = re.compile(r"^&(mut )?(syn::|darling_core::ast::data::NestedMeta|proc_macro2::(Ident|Literal|Group|TokenTree))")
DISPATCHERS = {"from_nested_meta": 1, "from_meta": 1, "from_value": 1, "from_expr": 1}

# sites allowed to build an unspanned error although a syntax node is in scope: whole-element verdicts
MAP_WHY = "literal item inside a map: reported through the list dispatcher with the span of the enclosing item (inside the attribute item at fault); leaf spans inside a bundle are rule C03.dataflow (F10)"
CENSUS_ALLOW = {
    ("<std::collections::hash::map::HashMap<alloc::string::String, V, S> as darling_core::from_meta::FromMeta>::from_list", "unsupported_format"): MAP_WHY,
    ("<std::collections::hash::map::HashMap<proc_macro2::Ident, V, S> as darling_core::from_meta::FromMeta>::from_list", "unsupported_format"): MAP_WHY,
    ("<std::collections::hash::map::HashMap<syn::path::Path, V, S> as darling_core::from_meta::FromMeta>::from_list", "unsupported_format"): MAP_WHY,
    ("<alloc::collections::btree::map::BTreeMap<alloc::string::String, V> as darling_core::from_meta::FromMeta>::from_list", "unsupported_format"): MAP_WHY,
    ("<alloc::collections::btree::map::BTreeMap<proc_macro2::Ident, V> as darling_core::from_meta::FromMeta>::from_list", "unsupported_format"): MAP_WHY,
    ("darling_core::ast::data::Data::<V, F>::try_from", "custom"): "union: whole-element verdict, deliberately reported at the macro call site",
    ("darling_core::ast::data::Data::<V, F>::try_empty_from", "custom"): "union: whole-element verdict",
}
TEMPLATE_ALLOW = {
    # (generator, ctor): reason
    (common.TOK % "variant::UnitMatchArm<'_>", "unsupported_format"): "inside generated from_string(lit: &str): a hook without a node; the dispatcher attaches the value's span",
    (common.TOK % "from_meta_impl::FromMetaImpl<'_>", "unknown_value"): "inside generated from_string: hook without a node",
}
TEMPLATE_FINDINGS = {}


def _spliced_only_into_allowed(ctx, core, b, ctor):
    """`b` is a token-building helper: every caller is a generator for which the unspanned `ctor`
    is allowed (the fragment ends up in the same generated hook as before it was factored out)."""
    if b.kind == "Closure":
        return False
    callers = set()
    for c in ctx.all_bodies(core):
        if scan.is_test_body(c):
            continue
        for blk, t in c.calls():
            if mir.callee_of(t) == b.key:
                callers.add(c.owner_fn or c.key)
    return bool(callers) and all((c, ctor) in TEMPLATE_ALLOW for c in callers)


SPAN_WRITING_METHODS = re.compile(r"^core::option::Option::<T>::(get_or_insert_with|get_or_insert|insert|replace|take|as_mut)$")


def span_method_writes(ctx, b):
    """calls of a mutating Option method on `<Error>.span`"""
    out = []
    for blk, t in b.calls():
        name = mir.callee_of(t) or ""
        if not SPAN_WRITING_METHODS.match(name) or not t["args"]:
            continue
        a0 = t["args"][0]
        if a0["k"] not in ("copy", "move"):
            continue
        e = ctx.expr(b, a0)
        if re.search(r"(^|\.)span$", e) and "darling_core::error::Error" in _base_ty(b, a0):
            out.append((blk, t))
    return out


def _base_ty(b, op):
    """type of the local a `&mut x.span` operand was borrowed from"""
    l = op["p"]["local"]
    for d in b.defs().get(l, []):
        if d[2] == "assign" and d[3]["r"]["k"] == "ref":
            return b.local_ty(d[3]["r"]["p"]["local"])
    return b.local_ty(l)


def first_writer_wins(ctx, f, writes, what, new_value_rx, rule="C03.G.first-writer-wins"):
    """Every write to self.span either happens where the span is still None, or stores the value it
    already had — `if self.span.is_none() { self.span = Some(s) }` and
    `self.span = self.span.or(Some(s))` are the same statement."""
    IDENT = ("self.span", "core::option::Option::Some{(self.span as Some).0}")
    for blk, i, st in writes:
        pcs = ctx.pc_strs(f, blk) or [set()]
        rows = resalg.expr_cases(ctx, f, st["r"])
        ok = bool(rows)
        seen_new = False
        detail = []
        for d in pcs:
            for conds, v in rows:
                both = set(d) | set(conds)
                if "is_some(self.span)=True" in both and "is_some(self.span)=False" in both:
                    continue
                detail.append((sorted(both), v[:120]))
                if "is_some(self.span)=False" in both:
                    if re.search(new_value_rx, v):
                        seen_new = True
                    else:
                        ok = False
                elif v not in IDENT:
                    ok = False
        ctx.ob(rule, f.key, what, ok and seen_new, "a write that can run while a span is present must keep it: %s" % detail)


def runtime_bodies(ctx, core):
    return [b for b in ctx.all_bodies(core) if not common.derive_file(b) and not scan.is_test_body(b) and not b.derived]


def has_node_param(b):
    """The body itself (fn or closure) takes a syntax node as a parameter (slices excluded)."""
    for i in range(1, b.arg_count + 1):
        ty = b.local_ty(i)
        if NODE_TYPES.match(ty):
            return ty
    return None


def closure_calls_with_span(ctx, body, clo_key, node_rx=None):
    """Closure `clo_key` (child of body) calls Error::with_span on its error parameter."""
    for c in ctx.closures_of(body):
        if c.key != clo_key:
            continue
        for blk, t in ctx.find_calls(c, r"^darling_core::error::Error::with_span$"):
            a0 = ctx.expr(c, t["args"][0])
            a1 = ctx.expr(c, t["args"][1])
            if a0 == "a2" and (node_rx is None or re.search(node_rx, a1)):
                return True, a1
    return False, None


def with_span_semantics(ctx, P):
    """`Error::with_span(node)` gives the error the node's span exactly when it has none (first writer
    wins), and "has a span" means the error's own span field.  Shared with C15 (an error returned by
    a hook comes back carrying the item's span unless it already carried one)."""
    f = ctx.fn(E + "with_span")
    if f:
        asg = ctx.find_field_assigns(f, "span", 1)
        mw = span_method_writes(ctx, f)
        ctx.ob(P + ".with-span-shape", f.key, "one write of self.span", len(asg) + len(mw) == 1, "%d assignments, %d Option-method writes" % (len(asg), len(mw)))
        first_writer_wins(ctx, f, asg, "self.span = Some(node.span())", r"Some\{[^{}]*Spanned(>)?::span\(a2\)\}$", rule=P + ".first-writer-wins")
        for blk, t in mw:
            # `self.span.get_or_insert_with(|| node.span())` writes only when the span is None
            name = mir.callee_of(t) or ""
            benign = name.endswith("::get_or_insert_with") or name.endswith("::get_or_insert")
            val = ctx.expr(f, t["args"][1]) if len(t["args"]) > 1 else ""
            okv = False
            if name.endswith("::get_or_insert_with"):
                for c in ctx.closures_of(f):
                    if c.key in val:
                        okv = all(re.search(r"Spanned(>)?::span\(node\)$|Spanned(>)?::span\(\(?a1", e) or "span(" in e for e in ctx.ret_values(c))
            else:
                okv = "span(a2)" in val
            ctx.ob(P + ".first-writer-wins", f.key, "self.span.%s(..)" % name.rsplit("::", 1)[-1], benign and okv, "Option method %s with value %s: only get_or_insert(_with) keeps an existing span" % (name, val[:100]))
    f = ctx.fn(E + "has_span")
    if f:
        rs = ctx.ret_values(f)
        ctx.ob(P + ".has-span-def", f.key, "return", rs == ["is_some(self.span)"], "returns %s" % rs)


def run(ctx):
    core = ctx.core("on")
    bodies = runtime_bodies(ctx, core)
    allb = [b for b in ctx.all_bodies(core) if not scan.is_test_body(b) and not b.derived]

    with_span_semantics(ctx, "C03.G")
    # the constructors that span themselves with their argument (the algebra reads
    # `ctor(x).with_span(x)` as `ctor(x)` on the strength of this)
    for nm in resalg.SELF_SPANNING:
        g = ctx.fn(nm)
        if g:
            rs = ctx.ret_values(g)
            ctx.ob("C03.G.spanning-constructors", g.key, "returns ….with_span(argument)", bool(rs) and all(re.match(r"^darling_core::error::Error::with_span\(.*, a1\)$", r) for r in rs), "returns %s" % [r[:120] for r in rs])
    # adding sibling suggestions works on the error itself: what comes back is `self` (span, locations
    # and all), never a rebuilt error
    g = ctx.fn(E + "add_sibling_alts_for_unknown_field")
    if g:
        rs = ctx.ret_values(g)
        ctx.ob("C03.G.sibling-alts-returns-same-error", g.key, "return self", bool(rs) and all(r == "self" for r in rs), "returns %s" % [r[:120] for r in rs])
    f = ctx.fn("darling_core::ast::data::Fields::<T>::with_span")
    if f:
        first_writer_wins(ctx, f, ctx.find_field_assigns(f, "span", 1), "Fields.span = Some(span)", r"Some\{a2\}$")
    # who may write Error.span
    writers = set()
    for b in allb:
        for blk, i, st in b.stmts():
            if st["k"] != "assign":
                continue
            pr = [e for e in st["p"]["proj"] if e["k"] != "deref"]
            if pr and pr[-1]["k"] == "field" and pr[-1]["name"] == "span":
                # type of the base place
                base_ty = b.local_ty(st["p"]["local"]) if len(pr) == 1 else ""
                if "darling_core::error::Error" in base_ty:
                    writers.add(b.key)
            if st["r"]["k"] == "aggregate" and st["r"]["agg"] == "adt" and st["r"]["adt"] == "darling_core::error::Error":
                writers.add(b.key)
        # writes through `&mut self.span` handed to an Option method (get_or_insert_with, insert, replace, take)
        for blk, t in span_method_writes(ctx, b):
            writers.add(b.key)
    allowed = {E + "new", E + "with_span", "<darling_core::error::Error as core::convert::From<syn::error::Error>>::from"}
    ctx.ob("C03.who.span-writers", "darling_core::error::Error.span", "functions that write the span field", writers <= allowed and (E + "with_span") in writers,
           "writers: %s" % sorted(writers))
    f = ctx.fn(E + "new")
    if f:
        rs = ctx.ret_values(f)
        ctx.ob("C03.G.new-unspanned", f.key, "span: None", len(rs) == 1 and "core::option::Option::None{}" in rs[0], "returns %s" % rs)
    f = ctx.fn("<darling_core::error::Error as core::convert::From<syn::error::Error>>::from")
    if f:
        rs = ctx.ret_values(f)
        ctx.ob("C03.G.from-syn-keeps-span", f.key, "span: Some(e.span())", len(rs) == 1 and "Some{syn::error::Error::span(a1)}" in rs[0], "returns %s" % [r[:200] for r in rs])

    # ------------------------------------------------------------ dispatchers attach their node's span
    n_disp = 0
    fm_impls = [i for i in core["impls"] if i["trait"] == "darling_core::from_meta::FromMeta"]
    keys = ["darling_core::from_meta::FromMeta::%s" % m for m in DISPATCHERS]
    for i in fm_impls:
        for m in i["items"]:
            if m in DISPATCHERS:
                keys.append("<%s as darling_core::from_meta::FromMeta>::%s" % (i["self"], m))
    seen = set()
    for b in ctx.all_bodies(core):
        if b.kind == "Closure" or scan.is_test_body(b) or b.derived:
            continue
        m = b.key.rsplit("::", 1)[-1]
        if m not in DISPATCHERS or "FromMeta" not in b.key or b.key in seen:
            continue
        if not (b.key.startswith("darling_core::from_meta::FromMeta::") or " as darling_core::from_meta::FromMeta>::" in b.key):
            continue
        seen.add(b.key)
        n_disp += 1
        check_dispatcher(ctx, b)
    ctx.floor("C03.P.dispatchers", "default dispatchers and overrides of them", n_disp, 60)

    # ------------------------------------------------------------ span census of the run-time library
    n_sites = 0
    for b in bodies:
        owner = b
        for blk, t in b.calls():
            c = mir.callee_of(t) or ""
            if not c.startswith(E):
                continue
            name = c[len(E):]
            if name not in CTORS:
                continue
            if b.file.endswith("error/mod.rs") or b.file.endswith("error/kind.rs"):
                continue  # constructors calling constructors
            n_sites += 1
            cls, why = classify_site(ctx, b, blk, t, name)
            ev = "%s(..)" % name
            ctx.ob("C03.census.%s" % ("ok" if cls != "violation" else "unspanned-with-node-in-scope"), b.key, ev, cls != "violation", "%s: %s" % (cls, why))
    ctx.floor("C03.census", "error constructions in the run-time library", n_sites, 25)

    # ------------------------------------------------------------ templates
    n_t = 0
    for b in ctx.all_bodies(core):
        if not common.derive_file(b) or scan.is_test_body(b):
            continue
        T = tpl.Templates(b)
        if not T.events:
            continue
        for s in T.root_streams():
            toks = T.render(s)
            for i in range(len(toks) - 5):
                if toks[i:i + 4] == ["darling", "::", "Error", "::"] and toks[i + 4] in CTORS + ["#err_fn"] or toks[i:i + 4] == ["darling", "::", "Error", "::"]:
                    ctor = toks[i + 4]
                    if ctor.startswith("⟨"):
                        # `::darling::Error::#err_fn` – interpolated constructor call (unknown_field / unknown_field_with_alts)
                        j = i + 5
                        if ctor == "⟨alt":
                            depth = 1
                            while j < len(toks) and depth:
                                if toks[j] == "⟨alt":
                                    depth += 1
                                elif toks[j] == "⟩":
                                    depth -= 1
                                j += 1
                        ctor = "unknown_field*"
                    else:
                        j = _skip_group(toks, i + 5)
                    if ctor == "accumulator":
                        continue
                    if ctor == "from":
                        # `::darling::Error::from` as a fn value or call: the only `From` impl of Error is
                        # From<syn::Error>, which takes the span of the syn error (C03.G span writers)
                        continue
                    n_t += 1
                    spanned = toks[j:j + 3] == [".", "with_span", "("]
                    key = (b.owner_fn or b.key, ctor)
                    ev = "template ::darling::Error::%s" % ctor
                    if spanned:
                        ctx.ob("C03.H.template-error-spanned", b.key, ev, True, "followed by .with_span(")
                    elif ctor in ABSENCE:
                        ctx.ob("C03.H.template-error-spanned", b.key, ev, True, "absence / whole-element verdict may be unspanned")
                    elif key in TEMPLATE_ALLOW:
                        ctx.ob("C03.H.template-error-spanned", b.key, ev, True, TEMPLATE_ALLOW[key])
                    elif _spliced_only_into_allowed(ctx, core, b, ctor):
                        ctx.ob("C03.H.template-error-spanned", b.key, ev, True, "helper whose tokens are spliced only into generators allowed for `%s`" % ctor)
                    elif key in TEMPLATE_FINDINGS:
                        ctx.ob("C03.H.template-error-spanned", b.key, ev, False, "%s: error about a present item is built unspanned in generated from_list although `__nested`/`__outer[0]` is in scope; it inherits the whole enum item's span" % TEMPLATE_FINDINGS[key])
                    else:
                        ctx.ob("C03.H.template-error-spanned", b.key, ev, False, "error built in a template without .with_span(..): …%s" % " ".join(toks[max(0, i - 8):j + 4]))
    ctx.floor("C03.H", "error constructions in templates", n_t, 12)
    # the unknown-field error of core_loop (interpolated constructor) carries with_span(__inner)
    f = ctx.fn("darling_core::codegen::variant_data::FieldsGen::<'a>::core_loop")
    if f:
        T = tpl.Templates(f)
        txt = " || ".join(T.text(s) for s in T.root_streams())
        ok = bool(re.search(r":: darling :: Error :: (⟨[^⟩]*⟩|⟨alt[^¦]*¦[^⟩]*⟩) \. with_span \( __inner \)", txt)) or ":: darling :: Error ::" in txt and ". with_span ( __inner )" in txt
        ctx.ob("C03.H.unknown-field-spanned", f.key, "unknown-field error", ok, "template: %s" % txt[:500])
    # extractor: .map_err(|e| e.with_span(&__inner).at(location))
    f = ctx.fn(common.TOK % "field::MatchArm<'_>")
    if f:
        T = tpl.Templates(f)
        txt = " ".join(T.render(T.root_streams()[-1])) if T.root_streams() else ""
        n = len(re.findall(r"\. map_err \( \| e \| e \. with_span \( & __inner \) \. at \(", txt))
        ctx.ob("C03.H.extractor-span-then-location", f.key, ".map_err(|e| e.with_span(&__inner).at(..))", n >= 2, "%d extractor templates end in with_span(&__inner).at(..)" % n)
        ctx.ob("C03.H.duplicate-spanned", f.key, "duplicate_field(..).with_span(&__inner)", "duplicate_field ( ⟨str⟩ ) . with_span ( & __inner )" in txt, txt[:200])

    # ------------------------------------------------------------ [B] derived: every extraction adds span + location
    pop = derived.population(ctx)
    n_ext = 0
    for b in pop:
        D = derived.DerivedFn(b)
        for blk, t in D.calls_to(r"^darling_core::error::Accumulator::handle$"):
            arg = D.sym.operand(t["args"][1])
            s = D.expr(t["args"][1])
            if "core::convert::identity(" not in s:
                continue
            n_ext += 1
            from vlib import sym as S
            e = S.strip_transparent(arg)
            ok = False
            why = "extraction result is not wrapped in map_err(closure): %s" % s[:160]
            if e[0] == "call" and e[1] == "core::result::Result::<T, E>::map_err" and e[2][1][0] == "closure":
                ck = e[2][1][1]
                ok, node = closure_calls_with_span(ctx, b, ck)
                has_at = any(ctx.find_calls(c, r"^darling_core::error::Error::at$") for c in ctx.closures_of(b) if c.key == ck)
                ok = ok and has_at
                why = "closure %s: with_span(%s) %s .at(..)" % (ck.rsplit("::", 1)[-1], node, "and" if has_at else "WITHOUT")
            ctx.ob("C03.B.extraction-spanned", b.key, "handle(extract)", ok, why)
    ctx.floor("C03.B", "field extractions in derived code", n_ext, 100)

    # ------------------------------------------------------------ bundles hand their span down (F10)
    f = ctx.fn(E + "into_vec")
    if f:
        reads = span_reads(ctx, f)
        ctx.ob("C03.dataflow.bundle-span-reaches-leaves", f.key, "read of self.span in the Multiple branch", bool(reads),
               "F10: into_vec never reads the bundle's span, so an unspanned leaf of a spanned bundle stays unspanned after flatten / conversion to diagnostics")
        # … and hands it down whenever the bundle has one: the with_span on the child stands under
        # "the bundle has a span" and under nothing else (not, say, under "there is a location to prepend")
        ws = ctx.find_calls_deep(f, r"^darling_core::error::Error::with_span$", helpers=1)
        ctx.ob("C03.G.bundle-span-handed-down-unconditionally", f.key, "one with_span on the child", len(ws) == 1, "%d with_span calls" % len(ws))
        for _, t_, owner in ws:
            b_ = [x for x, y in owner.calls() if y is t_][0]
            pcs = ctx.pc_strs(owner, b_) or [set()]
            extra = sorted({a_ for d in pcs for a_ in d if not re.search(r"^is_some\(.*span.*\)=True$|^is_some\(a\d\)=True$|^discr\(.*\)=Multiple$|Iterator(>)?::next\(", a_)})
            ctx.ob("C03.G.bundle-span-handed-down-unconditionally", f.key, "condition of the hand-down", not extra,
                   "the child receives the bundle's span only under the additional condition(s) %s: a spanned bundle without them leaves its unspanned leaves unspanned" % extra)
    f = ctx.fn(E + "flatten")
    if f:
        iv = ctx.find_calls(f, r"^darling_core::error::Error::into_vec$")
        rets_ = [b for b in sorted(f.normal_blocks()) if f.term(b)["k"] == "return"]
        ok = len(iv) == 1 and ctx.expr(f, iv[0][1]["args"][0]) == "self" and all(f.dominates(iv[0][0], r) for r in rets_)
        ctx.ob("C03.P.flatten-rehomes-on-every-path", f.key, "flatten() goes through into_vec(self) on every path", ok,
               "into_vec is what hands the bundle's span (and location) to its leaves; a path of flatten() that bypasses it leaves unspanned leaves unspanned")
    # syn::Error conversion
    f = ctx.fn("darling_core::error::<impl core::convert::From<darling_core::error::Error> for syn::error::Error>::from")
    if f:
        news = ctx.find_calls(f, r"^syn::error::Error::new")
        kinds = {}
        for blk, t in news:
            a0, a1 = ctx.expr(f, t["args"][0]), ctx.expr(f, t["args"][1])
            pc = ctx.pc_strs(f, blk)
            if all(ctx._sat(d, r"^is_some\(a1\.span\)=True$") for d in pc):
                kinds["explicit"] = (a0, a1)
            elif all(ctx._sat(d, r"^is_some\(a1\.span\)=False$") for d in pc):
                kinds["callsite"] = (a0, a1)
        ok = "explicit" in kinds and kinds["explicit"][0] == "(a1.span as Some).0" and kinds["explicit"][1] == "a1.kind"
        ctx.ob("C03.G.syn-explicit-span", f.key, "syn::Error::new(explicit span, kind)", ok, "%s" % (kinds.get("explicit"),))
        ok = "callsite" in kinds and kinds["callsite"][0] == "darling_core::error::Error::span(a1)" and kinds["callsite"][1] == "a1"
        ctx.ob("C03.G.syn-callsite-with-path", f.key, "syn::Error::new(call site, full Display incl. path)", ok, "%s" % (kinds.get("callsite"),))
    # conversion to compiler diagnostics goes through flatten(): that is where a leaf without a span
    # receives its bundle's span (rules shared with C04)
    from .C04 import syn_conversion_rules
    syn_conversion_rules(ctx, "C03.syn")
    f = ctx.fn(E + "explicit_span")
    if f:
        rs = ctx.ret_values(f)
        ctx.ob("C03.G.explicit-span-def", f.key, "return", rs == ["self.span"], "returns %s" % rs)
    return ctx.finish(
        explanation="Single-writer and first-writer-wins rules on Error.span; %d dispatchers checked for with_span(own node) on every Err exit; census of %d library and %d template error constructions; %d derived extractions." % (n_disp, n_sites, n_t, n_ext),
        assumptions=["span positions (line/column) are a run-time observation and are not decided", "syn's Spanned::span returns the node's own range"],
    )


def _skip_group(toks, i):
    """toks[i] is an opening delimiter: return the index after its matching close."""
    if i >= len(toks) or toks[i] not in ("(", "[", "{"):
        return i
    depth = 0
    while i < len(toks):
        if toks[i] in ("(", "[", "{", "«"):
            depth += 1
        elif toks[i] in (")", "]", "}", "»"):
            depth -= 1
            if depth == 0:
                return i + 1
        i += 1
    return i


def span_reads(ctx, f):
    out = []
    for b in [f] + ctx.closures_of(f):
        for blk, i, st in b.stmts():
            r = st.get("r", {})
            places = []
            if r.get("k") == "use" and r["op"]["k"] in ("copy", "move"):
                places.append(r["op"]["p"])
            if r.get("k") in ("ref", "discr"):
                places.append(r["p"])
            for p in places:
                if any(e["k"] == "field" and e["name"] == "span" for e in p["proj"]):
                    out.append((b.key, blk))
    return out


def classify_site(ctx, b, blk, t, name):
    if name in ABSENCE:
        return "absence", "absence or whole-element verdict may be unspanned"
    s, _ = ctx.sym(b)
    me = s.show(s._def_expr((blk, "term", "call", t), 0))
    # (1) with_span in the def-use chain inside the same body
    for wb, wt in ctx.find_calls(b, r"^darling_core::error::Error::with_span$"):
        a0 = ctx.expr(b, wt["args"][0])
        if me in a0 or a0 in me:
            return "with_span", "flows into with_span(%s)" % ctx.expr(b, wt["args"][1])
    # (2) no syntax node in scope of this body: delegated to the dispatcher that called the hook
    node = has_node_param(b)
    if node is None:
        if b.kind == "Closure":
            # closures of hooks: look at the captures and the owner
            owner_node = None
            for ob in ctx.bodies(b.crate).get(b.owner_fn, []):
                owner_node = has_node_param(ob)
            if owner_node is None:
                return "hook", "closure inside a hook without a node; the dispatcher attaches the span"
            # the closure's result must go through the owner's dispatcher exit (map_err with_span) – checked by C03.P
            return "hook", "closure of %s whose Err exits are spanned by rule C03.P" % b.owner_fn.rsplit("::", 1)[-1]
        return "hook", "hook without a node (%s); the dispatcher attaches the span" % b.key.rsplit("::", 1)[-1]
    if (common.owner_key(b.key), name) in CENSUS_ALLOW:
        return "allowed", CENSUS_ALLOW[(common.owner_key(b.key), name)]
    # a private helper called only from functions that have the allowance (code factored out of them)
    if b.kind in ("Fn", "AssocFn") and str(b.raw.get("vis", "")).startswith("Restricted"):
        callers = set()
        for c in ctx.all_bodies(b.crate):
            if c.key != b.key and not scan.is_test_body(c):
                for _, t2 in c.calls():
                    if mir.callee_of(t2) == b.key:
                        callers.add(common.owner_key(c.key))
        if callers and all((c, name) in CENSUS_ALLOW for c in callers):
            return "allowed", "helper of " + ", ".join(sorted(x.split(" as ")[0][-40:] for x in callers)) + ": " + MAP_WHY
    return "violation", "a syntax node (%s) is in scope and the error is built without with_span" % node


def check_dispatcher(ctx, b):
    """Every Err exit of a dispatcher carries with_span(own parameter): the return value is
    (a) map_err(.., closure calling with_span(e, param)), (b) a call forwarding the same node to
    another dispatcher, (c) a self-spanned constructor / with_span(.., param) result, (d) Ok(..)."""
    from vlib import sym as S
    s, _ = ctx.sym(b)
    n = 0
    # the dispatcher's value as a case table: combinators, `?`, explicit matches and private helpers
    # are looked through, so each row is Ok(..), Err(<error value>) or a result handed on as it is
    alg = resalg.Algebra(b.crate)
    seen = set()
    for conds, v in alg.body_cases(b):
        v = S.strip_transparent(v)
        key = s.show(v)
        if key in seen:
            continue
        seen.add(key)
        if v[0] == "agg" and v[1].endswith("Result::Ok"):
            ok, why = True, "Ok"
        elif v[0] == "agg" and v[1].endswith("Result::Err") and v[2]:
            ok, why = _err_value_ok(s, v[2][0])
        else:
            ok, why = exit_ok(ctx, b, s, v, 0)
        n += 1
        ctx.ob("C03.P.dispatcher-exits", b.key, "return %s" % _short(key), ok, why)
    if n == 0:
        ctx.ob("C03.P.dispatcher-exits", b.key, "return", False, "no return value found")


def _short(e):
    return re.sub(r"\(.*", "", e)[:70]


DISPATCH_METHODS = ("from_meta", "from_nested_meta", "from_value", "from_expr")
SELF_SPANNED_FNS = tuple(E + x for x in SELF_SPANNED)


def _is_dispatch_call(c):
    return isinstance(c, str) and "FromMeta" in c and c.rsplit("::", 1)[-1] in DISPATCH_METHODS


def _closure_body(ctx, b, key):
    for c in ctx.closures_of(b):
        if c.key == key:
            return c
    return None


def _mentions_param(e):
    if not isinstance(e, tuple):
        return False
    if e and e[0] == "param":
        return True
    return any(_mentions_param(x) for x in e if isinstance(x, tuple))


def _err_value_ok(s, inner):
    """the expression is a darling Error that carries a span"""
    if inner[0] == "call" and inner[1] in SELF_SPANNED_FNS:
        return True, "self-spanned constructor"
    if inner[0] == "call" and inner[1] == E + "with_span":
        return True, "with_span(%s)" % s.show(inner[2][1])
    if inner[0] == "field" and inner[1][0] == "variant" and inner[1][2] == "Err":
        src = inner[1][1]
        if src[0] == "call" and _is_dispatch_call(src[1]):
            return True, "the error of a dispatcher called with the same node"
        if src[0] in ("param", "field", "variant", "index"):
            return True, "the error of a result it was given"
        if src[0] == "call" and isinstance(src[1], str) and (src[1].startswith("core::iter::") or "Iterator" in src[1]):
            return True, "the first error of per-element dispatcher results"
    if inner[0] == "call" and inner[1] == "From::from":
        return True, "converted foreign (syn) error: keeps syn's span"
    if inner[0] == "call" and inner[1] in (E + "at", E + "at_path") and inner[2]:
        return _err_value_ok(s, inner[2][0])
    return False, "Err(%s) built without a span" % s.show(inner)[:120]


def exit_ok(ctx, b, s, e, depth):
    if depth > 8:
        return False, "too deep"
    k = e[0]
    if k == "agg":
        if e[1].endswith("Result::Ok"):
            return True, "Ok"
        if e[1].endswith("Result::Err"):
            return _err_value_ok(s, e[2][0])
        return False, "unrecognised aggregate %s" % e[1]
    if k == "call":
        c = e[1]
        if isinstance(c, tuple):
            return False, "indirect call"
        args = e[2]
        if c == "core::result::Result::<T, E>::map_err":
            f = args[1]
            if f[0] == "closure":
                cb = _closure_body(ctx, b, f[1])
                if cb is not None:
                    for blk, t in ctx.find_calls(cb, r"^darling_core::error::Error::with_span$"):
                        a0 = ctx.expr(cb, t["args"][0])
                        if a0 == "a2" or a0.startswith("darling_core::error::Error::"):
                            # the node must be a capture of an own parameter
                            caps = [s.show(x) for x in f[2]]
                            return True, "map_err(|e| e.with_span(..)) capturing %s" % caps
                    rs = [x for _, x in ctx.ret_exprs(cb)]
                    if rs and all(re.search(r"Error::(unknown_lit_str_value|unexpected_lit_type|unexpected_expr_type)\(", x) for x in rs):
                        return True, "map_err to a self-spanned constructor"
                    if rs and all(re.search(r"^darling_core::error::Error::(at|at_path)\(a2", x) for x in rs):
                        return exit_ok(ctx, b, s, args[0], depth + 1)
                    return False, "map_err closure builds %s without a span" % [x[:80] for x in rs]
            if f[0] == "fnptr" and "From<syn::error::Error>>::from" in f[1]:
                return True, "map_err(Error::from) keeps syn's span"
            return exit_ok(ctx, b, s, args[0], depth + 1)
        if c in ("core::result::Result::<T, E>::map", "core::result::Result::<T, E>::and_then"):
            return exit_ok(ctx, b, s, args[0], depth + 1)
        if c in ("core::option::Option::<T>::ok_or_else", "core::option::Option::<T>::ok_or"):
            # Some(v) => Ok(v), None => Err(<closure value>): the error value must be spanned
            f = args[1]
            if f[0] == "closure":
                cb = _closure_body(ctx, b, f[1])
                if cb is None:
                    return False, "closure body of ok_or_else not found"
                cs, _ = ctx.sym(cb)
                from vlib import sym as S
                vals = [S.strip_transparent(cs._def_expr(d, 0)) for d in cb.defs().get(0, []) if d[2] in ("assign", "call") and not cb.is_cleanup(d[0])]
                for v in vals:
                    ok, why = _err_value_ok(cs, v)
                    if not ok:
                        return False, "ok_or_else closure: " + why
                return bool(vals), "ok_or_else(|| spanned error)"
            return _err_value_ok(s, f)
        if c == "core::result::Result::<T, E>::or_else":
            return True, "or_else replaces the error by a value (Result<T, Meta>)"
        if _is_dispatch_call(c):
            if any(_mentions_param(a) for a in args):
                return True, "forwards its node to %s" % c.rsplit("::", 1)[-1]
            return True, "calls dispatcher %s with a node built from its own input" % c.rsplit("::", 1)[-1]
        if c.endswith("Iterator::collect") or c.endswith("Iterator>::collect"):
            return True, "collect of per-element dispatcher results (each element spanned by its own dispatcher)"
        if "from_residual" in c:
            return True, "`?` propagation of a result that is itself checked where it is produced"
        if c in SELF_SPANNED_FNS:
            return True, "self-spanned constructor"
        return False, "unrecognised call exit %s" % c
    if k == "local":
        # a match result with several definitions: every definition must be fine
        l = e[1]
        defs = [d for d in b.defs().get(l, []) if d[2] in ("assign", "call") and not b.is_cleanup(d[0])]
        if not defs:
            return False, "no definition of _%d" % l
        from vlib import sym as S
        for d in defs:
            ok, why = exit_ok(ctx, b, s, S.strip_transparent(s._def_expr(d, 0)), depth + 1)
            if not ok:
                return False, "definition of _%d at bb%d: %s" % (l, d[0], why)
        return True, "all %d definitions of the match result are spanned" % len(defs)
    if k in ("param", "field", "variant"):
        return True, "returns a result it was given"
    return False, "unrecognised exit %s" % s.show(e)[:120]

"""C12 – wrapper types are transparent over the wrapped conversion.

Decided (rules F and S over the hook table): every wrapper either overrides the root `from_meta`
and forwards it, or overrides every leaf the default root can reach (from_word, from_list,
from_expr) – overriding from_value/from_char/… alone is insufficient because targets override
from_expr (F7); each overridden hook calls the same hook of the inner type with its own parameter
and returns a value built from that call; `from_none` behaviour per wrapper; darling's Result
impls never construct an outer Err; SpannedValue's span per meta form; WithOriginal stores a clone
of the item.  Not decided: equality of produced values."""
import re

from vlib import resalg, mir
from . import common

META = dict(
    level="the hook table of every wrapper and the forwarding shape of each overridden hook are decided on all paths; value equality is not",
    technique="static analysis: forwarding-shape rule (callee identity + argument identity + return provenance) and sibling hook-table rule",
)
FM = "darling_core::from_meta::FromMeta"
SMART = {"alloc::boxed::Box<T>": "alloc::boxed::Box::<T>::new", "alloc::rc::Rc<T>": "alloc::rc::Rc::<T>::new",
         "alloc::sync::Arc<T>": "alloc::sync::Arc::<T>::new", "core::cell::RefCell<T>": "core::cell::RefCell::<T>::new"}
# wrapper -> (inner type, expected overridden hooks, from_none kind)
TABLE = {
    "core::option::Option<T>": ("T", {"from_none", "from_meta"}, "some-none"),
    "core::result::Result<T, darling_core::error::Error>": ("T", {"from_none", "from_list", "from_meta"}, "forward"),
    "core::result::Result<T, syn::attr::Meta>": ("T", {"from_meta"}, None),
    "core::sync::atomic::Atomic<bool>": ("bool", {"from_meta"}, None),
    "darling_core::util::spanned_value::SpannedValue<T>": ("T", {"from_meta", "from_nested_meta", "from_value", "from_expr"}, None),
    "darling_core::util::with_original::WithOriginal<T, syn::attr::Meta>": ("T", {"from_meta"}, None),
    "darling_core::util::over_ride::Override<T>": ("T", None, None),
    "darling_core::util::ident_string::IdentString": ("proc_macro2::Ident", {"from_meta"}, None),
}
for _w in SMART:
    TABLE[_w] = ("T", {"from_none", "from_list", "from_meta"}, "forward")
LEAVES = {"from_word", "from_list", "from_expr"}


def fwd_calls(ctx, f, hook, inner):
    out = []
    for b in [f] + ctx.closures_of(f):
        for blk, t in b.calls():
            ci = mir.callee_info(t)
            if ci and ci.get("trait") == FM and ci.get("method") == hook and ci.get("self_ty") == inner:
                out.append((b, blk, t))
    return out


def run(ctx):
    core = ctx.core("on")
    impls = {i["self"]: i for i in core["impls"] if i["trait"] == FM}
    for w, (inner, expect, none_kind) in TABLE.items():
        imp = impls.get(w)
        if imp is None:
            ctx.anchor_missing("C12.S.hook-table", "<%s as FromMeta>" % w, "impl not found")
            continue
        hooks = set(imp["items"])
        if expect is not None:
            ctx.ob("C12.S.hook-table", "<%s as FromMeta>" % w, "overridden hooks", hooks == expect, "overrides %s, table says %s" % (sorted(hooks), sorted(expect)))
        # root or all leaves
        ok = "from_meta" in hooks or LEAVES <= hooks
        missing = sorted(LEAVES - hooks)
        ctx.ob("C12.S.root-or-all-leaves", "<%s as FromMeta>" % w, "transparent entry points", ok,
               ("F7: " if w.endswith("Override<T>") else "") + "the root from_meta is not overridden and the default root reaches the un-forwarded leaves %s: forms that T accepts through them are rejected" % missing)
        for h in sorted(hooks):
            f = ctx.fn("<%s as %s>::%s" % (w, FM, h))
            if not f:
                continue
            if h == "from_none":
                rs = ctx.ret_values(f)
                if none_kind == "some-none":
                    ctx.ob("C12.G.absent-option-is-none", f.key, "return", rs == ["core::option::Option::Some{core::option::Option::None{}}"], "returns %s" % rs)
                elif none_kind == "forward":
                    ctor = SMART.get(w, "core::result::Result::Ok")
                    # Some(v) of T's from_none becomes Some(ctor(v)), None stays None — as a case table,
                    # so `.map(ctor)` and an explicit match read the same
                    src = "%s::from_none()" % FM
                    inner_v = "(%s as Some).0" % src
                    wrapped = "core::result::Result::Ok{%s}" % inner_v if ctor.endswith("Result::Ok") else "%s(%s)" % (ctor, inner_v)
                    want = sorted([(["is_some(%s)=True" % src], "core::option::Option::Some{%s}" % wrapped), (["is_some(%s)=False" % src], "core::option::Option::None{}")])
                    got = sorted(resalg.cases(ctx, f))
                    calls = fwd_calls(ctx, f, "from_none", inner)
                    ctx.ob("C12.F.absent-forwards", f.key, "T::from_none().map(ctor)", got == want and len(calls) == 1, "cases %s" % got)
                continue
            if w.endswith("Override<T>") and h == "from_word":
                rs = ctx.ret_values(f)
                ctx.ob("C12.G.override-word-is-inherit", f.key, "return", rs == ["core::result::Result::Ok{darling_core::util::over_ride::Override::Inherit{}}"], "returns %s" % rs)
                continue
            calls = fwd_calls(ctx, f, h, inner)
            ok = len(calls) == 1
            detail = "%d calls of <%s as FromMeta>::%s" % (len(calls), inner, h)
            if ok:
                b, blk, t = calls[0]
                arg = ctx.expr(b, t["args"][0]) if t["args"] else ""
                ok = arg == "a1" and b is f
                detail = "forwards %s(%s)" % (h, arg)
            ctx.ob("C12.F.forwards-same-hook-same-node", f.key, "%s -> <%s>::%s" % (h, inner, h), ok, detail)
            # every return is built from the forwarded call
            fw = "%s::%s(a1)" % (FM, h)
            cs = resalg.cases(ctx, f)
            okr = bool(cs) and all(fw in v or any(fw in a for a in conds) for conds, v in cs)
            ctx.ob("C12.F.returns-forwarded-result", f.key, "return provenance", okr, "cases %s" % [(c, v[:140]) for c, v in cs])
            # unconditional: the forwarded call dominates every return
            if calls:
                rets = [bb for bb in sorted(f.normal_blocks()) if f.term(bb)["k"] == "return"]
                ctx.ob("C12.F.forwards-on-every-path", f.key, "dominance", all(f.dominates(calls[0][1], r) for r in rets), "the forwarded call must dominate every return")
    # ---------------------------------------------------------------- wrapper specifics
    for w in ("core::result::Result<T, darling_core::error::Error>", "core::result::Result<T, syn::attr::Meta>"):
        for h in impls.get(w, {"items": []})["items"]:
            f = ctx.fn("<%s as %s>::%s" % (w, FM, h), required=False)
            if not f or h == "from_none":
                continue
            cs = resalg.cases(ctx, f)
            bad = [(c, v[:120]) for c, v in cs if not v.startswith("core::result::Result::Ok{")]
            ctx.ob("C12.G.result-never-fails-outwardly", f.key, "no outer Err", bool(cs) and not bad, "cases whose value is not Ok(..): %s" % bad)
    f = ctx.fn("<core::result::Result<T, syn::attr::Meta> as %s>::from_meta" % FM)
    if f:
        src = "%s::from_meta(a1)" % FM
        cs = resalg.cases(ctx, f)
        failing = [v for c, v in cs if "is_ok(%s)=False" % src in c]
        ok = len(failing) == 1 and re.match(r"^core::result::Result::Ok\{core::result::Result::Err\{[^{}]*Clone for syn::attr::Meta>::clone\(a1\)\}\}$", failing[0]) is not None
        ctx.ob("C12.G.result-meta-keeps-item", f.key, "T fails => Ok(Err(item.clone()))", ok, "cases %s" % cs)
        passing = [v for c, v in cs if "is_ok(%s)=True" % src in c]
        ctx.ob("C12.G.result-meta-keeps-value", f.key, "T succeeds => Ok(Ok(value))", passing == ["core::result::Result::Ok{core::result::Result::Ok{(%s as Ok).0}}" % src], "cases %s" % cs)
    f = ctx.fn("<darling_core::util::with_original::WithOriginal<T, syn::attr::Meta> as %s>::from_meta" % FM)
    if f:
        cs = resalg.cases(ctx, f)
        good = [v for c, v in cs if v.startswith("core::result::Result::Ok{")]
        ok = bool(good) and all(re.match(r"^core::result::Result::Ok\{darling_core::util::with_original::WithOriginal::<T, O>::new\(\(.*FromMeta::from_meta\(a1\) as Ok\)\.0, [^()]*clone\(a1\)\)\}$", v) for v in good)
        ctx.ob("C12.G.with-original-stores-clone", f.key, "new(T::from_meta(value)?, value.clone())", ok, "%s" % [v[:200] for v in good])
    f = ctx.fn("<darling_core::util::spanned_value::SpannedValue<T> as %s>::from_meta" % FM)
    if f:
        spans = {}
        for _, t, ow in ctx.find_calls_deep(f, r"Spanned>::span$|spanned::Spanned::span$", helpers=1):
            arg = ctx.expr(ow, t["args"][0])
            blk = [b_ for b_, t_ in ow.calls() if t_ is t][0]
            for d in ctx.pc_strs(ow, blk):
                for a in d:
                    m = re.match(r"^discr\(a1\)=(\w+)$", a)
                    if m:
                        spans[m.group(1)] = arg
        want = {"Path": "(a1 as Path).0", "List": "(a1 as List).0.tokens", "NameValue": "(a1 as NameValue).0.value"}
        ctx.ob("C12.E.spanned-value-span-per-form", f.key, "value span", spans == want, "spans taken from %s, expected %s" % (spans, want))
    for h, src in (("from_nested_meta", "a1"), ("from_value", "a1"), ("from_expr", "a1")):
        f = ctx.fn("<darling_core::util::spanned_value::SpannedValue<T> as %s>::%s" % (FM, h))
        if f:
            cs = resalg.cases(ctx, f)
            good = [v for c, v in cs if v.startswith("core::result::Result::Ok{")]
            ok = bool(good) and all(re.match(r"^core::result::Result::Ok\{darling_core::util::spanned_value::SpannedValue::<T>::new\(\(.* as Ok\)\.0, [^()]*::span\(a1\)\)\}$", v) for v in good)
            ctx.ob("C12.E.spanned-value-span-per-form", f.key, "value span of the node itself", ok, "SpannedValue::new(value, node.span()): Ok cases %s" % [v[:200] for v in good])
    f = ctx.fn("<darling_core::util::flag::Flag as %s>::from_none" % FM)
    if f:
        rs = ctx.ret_values(f)
        ctx.ob("C12.G.absent-flag-not-present", f.key, "return", rs == ["core::option::Option::Some{darling_core::util::flag::Flag::Flag{core::option::Option::None{}}}"], "returns %s" % rs)
    # wrappers that stay required when absent do not override from_none
    for w in ("darling_core::util::spanned_value::SpannedValue<T>", "darling_core::util::with_original::WithOriginal<T, syn::attr::Meta>", "darling_core::util::over_ride::Override<T>"):
        if w in impls:
            ctx.ob("C12.S.stays-required", "<%s as FromMeta>" % w, "from_none not overridden", "from_none" not in impls[w]["items"], "items %s" % impls[w]["items"])
    ctx.floor("C12.S", "wrapper impls in the table", sum(1 for w in TABLE if w in impls), 12)
    return ctx.finish(
        explanation="Hook table and forwarding shape of %d wrapper impls." % len(TABLE),
        assumptions=["equality of the produced values is value-level and not decided"],
    )

"""C17 – did-you-mean suggestions are sound, best-match and scoped to the level.

Decided: the running-maximum structure of did_you_mean (assignment only under a strict `>`
against a compile-time constant and (no candidate yet ∨ strictly better)); add_alts replaces
only when strictly better; sibling alternates only at the error's origin; only the unknown-field
kind can carry a suggestion (type fact); candidate lists and match arms discriminate on the same
attributes (S; F9 for enums); parent names reach only the flatten initialiser; with the feature
off did_you_mean is the constant None.  Not decided: that the chosen name is the similarity
maximum over a run-time list (only 'keeps a strict running maximum')."""
import re

from vlib import resalg, mir, tpl, scan
from . import common

META = dict(
    level="guard structure of the suggestion machinery on all paths, candidate-set agreement with the emitted arms for all receivers, feature-off stub; similarity optimality is value-level",
    technique="static analysis: path-condition guards with binop-kind identity, sibling candidate/arm agreement, type facts from ADT definitions, two feature configurations",
)
K = "darling_core::error::kind::"


def run(ctx):
    core = ctx.core("on")
    f = ctx.fn(K + "did_you_mean")
    if f:
        simsd = ctx.find_calls_deep(f, r"^strsim::jaro_winkler$")
        ctx.ob("C17.F.similarity-fn", f.key, "strsim::jaro_winkler(field, candidate)", len(simsd) == 1 and ctx.expr(simsd[0][2], simsd[0][1]["args"][0]) in ("a1", "field"), "%d calls" % len(simsd))
        folds = [(b_, t_) for b_, t_ in ctx.find_calls(f, r"Iterator(>)?::fold$")]
        if folds and simsd and simsd[0][2] is not f:
            # the search written as a fold: the step closure returns the new best or the old one
            step = simsd[0][2]
            rows = resalg.cases(ctx, step)
            J = r"strsim::jaro_winkler\(.*\)"
            upd = [(c, v) for c, v in rows if v.startswith("core::option::Option::Some{tuple{strsim::jaro_winkler(")]
            keep = [(c, v) for c, v in rows if not v.startswith("core::option::Option::Some{tuple{strsim::jaro_winkler(")]
            ctx.ob("C17.G.candidate-update-shape", f.key, "candidate = Some((confidence, pv))", len(upd) >= 1 and all(v == "a2" for c, v in keep) and ctx.expr(f, folds[0][1]["args"][1]) == "core::option::Option::None{}",
                   "%d updating cases, other cases return %s, fold starts from %s" % (len(upd), sorted({v[:40] for c, v in keep}), ctx.expr(f, folds[0][1]["args"][1])))
            ok = bool(upd) and all(any(re.match(r"^Gt\(%s, [0-9.]+f64\)=True$" % J, a) for a in c) for c, v in upd)
            ctx.ob("C17.G.threshold-strict", f.key, "update under confidence > <const>", ok, "update cases %s" % [[a[:60] for a in c] for c, v in upd])
            ops = [st["r"]["op"] for b2 in [step] + ctx._closures_deep(step) for _, _, st in b2.stmts() if st["k"] == "assign" and st["r"]["k"] == "binop"]
            ctx.ob("C17.G.comparisons-strict", f.key, "comparison operators", sorted(set(ops)) == ["Gt", "Lt"], "binops %s" % ops)
            ok2 = bool(upd) and all("is_some(a2)=False" in c or any(re.match(r"^Lt\(\(a2 as Some\)\.0\.0, %s\)=True$" % J, a) for a in c) for c, v in upd)
            ctx.ob("C17.G.strict-improvement", f.key, "update under (no candidate ∨ best < confidence)", ok2, "a better earlier suggestion must never be replaced by an equal or worse one")
            consts = [ctx.expr(b2, st["r"]["b"]) for b2 in [step] + ctx._closures_deep(step) for _, _, st in b2.stmts() if st["k"] == "assign" and st["r"]["k"] == "binop" and st["r"]["op"] == "Gt"]
            ctx.ob("C17.G.threshold-constant", f.key, "threshold", len(consts) == 1 and re.match(r"^[0-9.]+f64$", consts[0]) is not None, "%s" % consts)
            rs = ctx.ret_values(f)
            ctx.ob("C17.G.result-is-candidate", f.key, "return", len(rs) == 1 and rs[0].startswith("core::option::Option::<T>::map(core::iter::traits::iterator::Iterator::fold("), "%s" % [r[:120] for r in rs])
            f = None
    if f:
        sims = ctx.find_calls(f, r"^strsim::jaro_winkler$")
        # the assignment of the running candidate
        cand_assigns = []
        cand_local = None
        for l in f.locals:
            if l["ty"]["s"].startswith("core::option::Option<(f64, &str)>"):
                pass
        for blk, i, st in f.stmts():
            if st["k"] == "assign" and not st["p"]["proj"] and f.local_ty(st["p"]["local"]) == "core::option::Option<(f64, &str)>":
                e = ctx.expr(f, st["r"])
                cand_assigns.append((blk, st["p"]["local"], e))
        upd = [(b, l, e) for b, l, e in cand_assigns if e.startswith("core::option::Option::Some{tuple{strsim::jaro_winkler(")]
        ctx.ob("C17.G.candidate-update-shape", f.key, "candidate = Some((confidence, pv))", len(upd) >= 1, "%d updates" % len(upd))
        for b, l, e in upd[:1]:
            ds = ctx.pc_strs(f, b)
            GT = r"^Gt\(strsim::jaro_winkler\(.*\), [0-9.]+f64\)=True$"
            ok = bool(ds) and all(ctx._sat(d, GT) for d in ds)
            ctx.ob("C17.G.threshold-strict", f.key, "update under confidence > <const>", ok, "path conditions %s" % [[a[:60] for a in sorted(d) if a.startswith(("Gt", "Lt", "Ge", "Le"))] for d in ds])
            # no non-strict comparison anywhere
            ops = [st["r"]["op"] for _, _, st in f.stmts() if st["k"] == "assign" and st["r"]["k"] == "binop"]
            ctx.ob("C17.G.comparisons-strict", f.key, "comparison operators", sorted(set(ops)) == ["Gt", "Lt"], "binops %s" % ops)
            ok2 = bool(ds) and all(ctx._sat(d, r"^is_some\(_\d+\)=False$") or ctx._sat(d, r"^Lt\(\(_\d+ as Some\)\.0\.0, strsim::jaro_winkler\(.*\)\)=True$") for d in ds)
            ctx.ob("C17.G.strict-improvement", f.key, "update under (no candidate ∨ best < confidence)", ok2, "a better earlier suggestion must never be replaced by an equal or worse one")
        # threshold is a compile-time constant
        consts = [ctx.expr(f, st["r"]["b"]) for _, _, st in f.stmts() if st["k"] == "assign" and st["r"]["k"] == "binop" and st["r"]["op"] == "Gt"]
        ctx.ob("C17.G.threshold-constant", f.key, "threshold", len(consts) == 1 and re.match(r"^[0-9.]+f64$", consts[0]) is not None, "%s" % consts)
        rs = ctx.ret_values(f)
        ctx.ob("C17.G.result-is-candidate", f.key, "return", len(rs) == 1 and rs[0].startswith("core::option::Option::<T>::map(_"), "%s" % [r[:120] for r in rs])
    # feature off: constant None, no call
    off = ctx.fn(K + "did_you_mean", cfg="off")
    if off:
        rs = ctx.ret_values(off)
        ncalls = len(list(off.calls()))
        ctx.ob("C17.G.feature-off-stub", off.key + " [suggestions off]", "return None, no calls", rs == ["core::option::Option::None{}"] and ncalls == 0, "returns %s with %d calls" % (rs, ncalls))
    # add_alts
    f = ctx.fn(K + "ErrorUnknownField::add_alts")
    if f:
        asg = ctx.find_field_assigns(f, "did_you_mean", 1)
        # both reasons to store are present, however the branches are laid out: nothing stored yet, or a closer match
        alld = [d for blk, i, st in asg for d in ctx.pc_strs(f, blk)]
        NEW = r"is_some\(.*(?:did_you_mean\(self\.name, a2\)|Iterator::fold\(.*into_iter\(a2\).*did_you_mean::\{closure#\d+\}\[self\.name\]\))\)=True"
        cover = any(ctx._sat(d, NEW) and ctx._sat(d, r"is_some\(self\.did_you_mean\)=False") for d in alld) and any(ctx._sat(d, NEW) and ctx._sat(d, r"Gt\(.*\.0, .*\.0\)=True") for d in alld)
        ctx.ob("C17.G.add-alts-shape", f.key, "stores when empty and when closer", bool(asg) and cover, "%d assignments under %s" % (len(asg), [sorted(a[:80] for a in d) for d in alld]))
        for blk, i, st in asg:
            ctx.requires("C17.G.add-alts-only-improves", f, blk, "self.did_you_mean = Some(bna)", [r"is_some\(.*(?:did_you_mean\(self\.name, a2\)|Iterator::fold\(.*into_iter\(a2\).*did_you_mean::\{closure#\d+\}\[self\.name\]\))\)=True", r"Gt\(.*\.0, .*\.0\)=True"],
                         alt=[[r"is_some\(.*(?:did_you_mean\(self\.name, a2\)|Iterator::fold\(.*into_iter\(a2\).*did_you_mean::\{closure#\d+\}\[self\.name\]\))\)=True", r"is_some\(self\.did_you_mean\)=False"]])
    # sibling alternates only at the error's origin
    f = ctx.fn("darling_core::error::Error::add_sibling_alts_for_unknown_field")
    if f:
        for blk, t in ctx.find_calls(f, r"ErrorUnknownField::add_alts$"):
            ctx.requires("C17.G.siblings-only-at-origin", f, blk, "add_alts", [r"^len\(self\.locations\)=0$", r"discr\(self\.kind\)=UnknownField$"])
        for blk, i, st in ctx.find_field_assigns(f, "kind", 1):
            ctx.requires("C17.G.siblings-only-at-origin", f, blk, "self.kind = Multiple(mapped)", [r"^len\(self\.locations\)=0$"])
        n = len(ctx.find_calls(f, r"ErrorUnknownField::add_alts$"))
        ctx.ob("C17.G.siblings-shape", f.key, "add_alts call", n == 1, "%d" % n)
    callers = sorted({b.owner_fn or b.key for b in ctx.all_bodies(core) if not scan.is_test_body(b) and not b.derived and ctx.find_calls(b, r"ErrorUnknownField::add_alts$")})
    ctx.ob("C17.who.add-alts-callers", K + "ErrorUnknownField::add_alts", "callers", callers == ["darling_core::error::Error::add_sibling_alts_for_unknown_field"],
           "add_alts is reachable from %s; only the guarded entry add_sibling_alts_for_unknown_field may call it" % callers)
    f = ctx.fn("darling_core::error::Error::add_sibling_alts_for_unknown_field")
    if f:
        rec = [h["owner"].key for h in ctx.per_element(f, r"^darling_core::error::Error::add_sibling_alts_for_unknown_field$") if h["form"] in ("adapter", "loop")]
        ctx.ob("C17.G.children-recurse-through-guard", f.key, "children of a bundle go through the guarded entry", len(rec) == 1,
               "each child of a Multiple bundle must be re-checked by add_sibling_alts_for_unknown_field itself (its own locations.is_empty() guard); closures recursing: %s" % rec)
    # type fact: only UnknownField carries a suggestion
    adts = {a["path"]: a for a in core["adts"]}
    ek = adts.get("darling_core::error::kind::ErrorKind")
    if ek:
        carriers = [v["name"] for v in ek["variants"] if any("ErrorUnknownField" in fl["ty"] or "f64" in fl["ty"] for fl in v["fields"])]
        ctx.ob("C17.type.only-unknown-field-carries-suggestion", "darling_core::error::kind::ErrorKind", "variants holding a suggestion", carriers == ["UnknownField"], "%s" % carriers)
    else:
        ctx.anchor_missing("C17.type", "darling_core::error::kind::ErrorKind", "ADT facts missing")
    # who builds ErrorUnknownField with alternatives
    makers = sorted({b.key for b in ctx.all_bodies(core) if not scan.is_test_body(b) and not b.derived and ctx.find_calls(b, r"ErrorUnknownField::with_alts$")})
    ctx.ob("C17.who.with-alts", K + "ErrorUnknownField::with_alts", "callers", bool(makers) and set(makers) <= {"darling_core::error::Error::unknown_field_path_with_alts", "darling_core::error::Error::unknown_field_with_alts"}, "%s" % makers)
    # ---------------------------------------------------------------- candidate lists vs arms
    f = ctx.fn("darling_core::codegen::variant_data::FieldsGen::<'a>::core_loop")
    if f:
        # (computed in core_loop or in a helper it calls)
        fm = [(g, t) for g in [f] + ctx.local_callees(f, depth=1) for _, t in ctx.find_calls(g, r"Iterator>::filter_map|Iterator::filter_map")]
        ok = len(fm) == 1 and "Field::<'a>::as_name" in ctx.expr(fm[0][0], fm[0][1]["args"][1]) and "self.fields" in ctx.expr(fm[0][0], fm[0][1]["args"][0])
        ctx.ob("C17.S.field-candidates-are-addressable-names", f.key, "names = fields.iter().filter_map(Field::as_name)", ok, "%s" % [[ctx.expr(g, a)[:100] for a in t["args"]] for g, t in fm])
    f = ctx.fn("darling_core::codegen::field::Field::<'a>::as_name")
    if f:
        for blk, i, st in ctx.find_aggregates(f, r"^core::option::Option$", "Some"):
            ctx.requires("C17.S.skip-and-flatten-not-offered", f, blk, "Some(name)", [r"self\.skip=False", r"self\.flatten=False"])
    f = ctx.fn(common.TOK % "from_meta_impl::FromMetaImpl<'_>")
    if f:
        # the candidate list may be computed in the generator or in a helper it calls
        cand = [(g, t) for g in [f] + ctx.local_callees(f, depth=2) for _, t in ctx.find_calls(g, r"Iterator>::map|Iterator::map") if "as_name" in ctx.expr(g, t["args"][1])]
        ok = len(cand) == 1
        why = "%d candidate lists" % len(cand)
        if ok:
            g, t = cand[0]
            recv = ctx.expr(g, t["args"][0])
            m = re.search(r"Iterator(?:>)?::filter\(.*, closure ([^\[]+)\[", recv)
            pred = None
            if m:
                for c in ctx.closures_of(g):
                    if c.key == m.group(1):
                        pred = c
            tc = ctx.true_conditions(pred) if pred is not None else None
            ok = tc is not None and len(tc) == 1 and any(re.search(r"\.skip=False$", a) for a in tc[0])
            why = "candidates come from %s; filter keeps a variant under %s" % (recv[:100], tc)
        if not cand:
            # the same list built by a loop: one push of variant.as_name() per non-skipped variant
            lp = [(g, h) for g in [f] + ctx.local_callees(f, depth=2) for h in ctx.per_element(g, r"Vec::<.*>::push$")
                  if h["form"] == "loop" and re.search(r"Variant::<'a>::as_name\(|Variant::as_name\(|::as_name\(", ctx.expr(h["owner"], h["t"]["args"][1]))]
            if len(lp) == 1:
                g, h = lp[0]
                ds = ctx.pc_strs(h["owner"], h["blk"])
                about = [[a for a in d if ".skip" in a] for d in ds]
                ok = bool(ds) and all(len(x) == 1 and x[0].endswith(".skip=False") for x in about)
                why = "candidates pushed in a loop over %s under %s" % (h["source"][:100], about)
        ctx.ob("C17.S.variant-candidates-vs-arms", f.key, "suggestion candidates exclude skipped variants", ok,
               "F9: match arms are emitted for non-skipped variants only (C09.G.skipped-variant-emits-nothing); the did-you-mean candidates must be the same variants: %s" % why)
    # parent names go only to the flatten initialiser
    users = sorted({b.owner_fn for b in ctx.all_bodies(core) if not scan.is_test_body(b) for tk in tpl.Templates(b).all_tokens(("ident",)) if tk.text == "add_sibling_alts_for_unknown_field"}) if False else None
    gens = [b for b in ctx.all_bodies(core) if common.derive_file(b) and not scan.is_test_body(b)]
    emitters = set()
    for b in gens:
        for blk, t in b.calls():
            c = mir.callee_of(t) or ""
            if c.startswith("quote::__private::push_ident"):
                for a in t["args"][1:2]:
                    e = ctx.expr(b, a)
                    if e == '"add_sibling_alts_for_unknown_field"':
                        emitters.add(common.owner_key(b.key))
    ctx.ob("C17.who.parent-names-only-to-flatten", "template token add_sibling_alts_for_unknown_field", "emitting generators",
           emitters == {common.TOK % "field::FlattenInitializer<'_>"}, "%s" % sorted(emitters))
    f = ctx.fn(common.TOK % "field::FlattenInitializer<'_>")
    if f:
        T = tpl.Templates(f)
        for tk in T.all_tokens(("ident",)):
            if tk.text == "add_sibling_alts_for_unknown_field":
                ctx.requires("C17.G.parent-names-only-when-any", f, tk.blk, "add_sibling_alts template", [("ne", r"^len\(self\.parent_field_names\)$", 0)])
    g = ctx.fn("darling_core::codegen::trait_impl::TraitImpl::<'a>::require_fields")
    if g:
        ok = False
        for _, t, c in ctx.find_calls_deep(g, r"as_flatten_initializer$", helpers=1):
            ok = "filter_map" in ctx.expr(c, t["args"][1]) and "as_name" in ctx.expr(c, t["args"][1])
        ctx.ob("C17.S.parent-names-are-addressable-names", g.key, "as_flatten_initializer(fields.filter_map(as_name))", ok, "parent names offered to the flatten member must be the parent's addressable names")
    return ctx.finish(
        explanation="Guards of did_you_mean / add_alts / add_sibling_alts (both feature configurations), type fact on ErrorKind, candidate-set agreement for fields and variants, scoping of parent names.",
        assumptions=["strsim::jaro_winkler is the similarity measure (trusted)", "optimality over a run-time candidate list is value-level"],
    )

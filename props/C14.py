"""C14 – keyed collections: all distinct keys kept, every repeat and bad entry reported.

Decided on the five `map!` instantiations: literal item → error handled by the accumulator; key
failure pushes and still handles the value; `map.insert` requires value = Ok ∧ not already seen;
the duplicate push requires already seen; `seen_keys.insert(key)` on every path after a
successful key conversion; the value error is located `at_path(path)`; result through
`finish_with(map)`; hash and ordered maps have the same callee sequence modulo container type.
Not decided: the size/content of the resulting map."""
import re

from vlib import resalg, mir
from . import common

META = dict(
    level="guard structure and pairing of the map conversion on all paths, and sibling agreement of the five instantiations; map contents are value-level",
    technique="static analysis: path-condition guards, must-pass-through, callee-sequence sibling agreement",
)
FM = "darling_core::from_meta::FromMeta"
MAPS = [
    ("std::collections::hash::map::HashMap<alloc::string::String, V, S>", "alloc::string::String", "hash"),
    ("std::collections::hash::map::HashMap<proc_macro2::Ident, V, S>", "proc_macro2::Ident", "hash"),
    ("std::collections::hash::map::HashMap<syn::path::Path, V, S>", "syn::path::Path", "hash"),
    ("alloc::collections::btree::map::BTreeMap<alloc::string::String, V>", "alloc::string::String", "btree"),
    ("alloc::collections::btree::map::BTreeMap<proc_macro2::Ident, V>", "proc_macro2::Ident", "btree"),
]


def norm_seq(ctx, f):
    seq = []
    for blk, t in sorted(f.calls(), key=lambda x: x[0]):
        c = mir.callee_of(t) or "indirect"
        c = re.sub(r"std::collections::hash::map::HashMap|alloc::collections::btree::map::BTreeMap", "MAP", c)
        c = re.sub(r"MAP::<[^>]*(<[^>]*>)?[^>]*>", "MAP", c)
        c = re.sub(r"<(alloc::string::String|proc_macro2::Ident|syn::path::Path) as", "<KEY as", c)
        c = re.sub(r"alloc::string::String|proc_macro2::Ident|syn::path::Path", "KEY", c)
        c = re.sub(r"MAP<[^>]*>", "MAP", c)
        c = c.replace("syn::gen::clone::<impl core::clone::Clone for KEY>::clone", "<KEY as core::clone::Clone>::clone")
        if "with_capacity_and_hasher" in c or c.endswith("MAP::new") or c.endswith("Default::default") or "Default>::default" in c or c == "core::slice::<impl [T]>::len" or "with_capacity" in c:
            continue
        if re.search(r"MAP::.*::(new|with_capacity_and_hasher)$", c):
            continue
        seq.append(c)
    return seq


def located_rule(ctx, rule, f, conv):
    """A value's error names its key: either the key is attached where the value result is produced
    (then every consumer sees it), or every place that records the value's error attaches it — the
    invalid-key path (`errors.handle(value)`) included."""
    ats = ctx.find_calls_deep(f, r"^darling_core::error::Error::at_path$", helpers=2)
    conv_owner = conv[0][2] if conv else None
    at_production = False
    for blk, t1, o in ats:
        a0 = ctx.expr(o, t1["args"][0])
        same_body = conv_owner is not None and (o is conv_owner or o.key.startswith(conv_owner.key + "::{closure") or conv_owner.key.startswith(o.key + "::{closure")) and conv_owner is not f
        inline_in_loop = conv_owner is f and o is f and ("from_meta(" in a0) and not any(x in a0 for x in (".1 as Err", "handle("))
        if (same_body or inline_in_loop or o.kind == "Closure" and a0 == "a2") and "path" in ctx.expr(o, t1["args"][1]).lower():
            # the closure |e| e.at_path(&path) handed to map_err right at the conversion
            if o.kind == "Closure" and a0 == "a2":
                parent_has_conv = any(o.key.startswith(c[2].key + "::{closure") or c[2].key == o.key for c in conv) or (conv_owner is not None and o.key.startswith(conv_owner.key))
                at_production = at_production or parent_has_conv
            else:
                at_production = True
    if at_production:
        ctx.ob(rule, f.key, "value error .at_path(&path) where the value is produced", True, "at_path calls: %s" % [[ctx.expr(o, a)[:80] for a in t1["args"]] for _, t1, o in ats])
        return
    # otherwise every recording of the value's error must carry the key
    recs = []
    for blk, t in ctx.find_calls(f, r"^darling_core::error::Accumulator::handle$"):
        a = ctx.expr(f, t["args"][1])
        if re.search(r"\.1$|from_meta\(", a) and "from_path(" not in a.split("from_meta(")[0][-60:]:
            recs.append((blk, a))
    for blk, t in ctx.find_calls(f, r"^darling_core::error::Accumulator::push$"):
        a = ctx.expr(f, t["args"][1])
        if re.search(r"as Err\)\.0", a) and "from_path(" not in a:
            recs.append((blk, a))
    bad = [(blk, a[:100]) for blk, a in recs if "at_path(" not in a]
    ctx.ob(rule, f.key, "every recording of the value's error carries the key", bool(recs) and not bad,
           "the key is not attached where the value is produced, so each recording must attach it; recordings without at_path: %s" % bad)


def run(ctx):
    seqs = {}
    for ty, key, kind in MAPS:
        f = ctx.fn("<%s as %s>::from_list" % (ty, FM))
        if not f:
            continue
        # ---- per item: a literal is an error; a named item yields (path, V::from_meta(item) located
        # at the path) — in a closure, in a private helper, or inline in the loop
        conv = ctx.find_calls_deep(f, r"FromMeta>::from_meta$|FromMeta::from_meta$", helpers=2)
        ctx.ob("C14.shape.pairs-closure", f.key, "item → (path, value result)", len(conv) == 1, "%d conversions of the item's value" % len(conv))
        lit_errs = ctx.find_calls_deep(f, r"^darling_core::error::Error::unsupported_format$", helpers=2)
        ctx.ob("C14.G.literal-item-is-error", f.key, "NestedMeta::Lit => Err", len(lit_errs) == 1, "%d" % len(lit_errs))
        for blk0, t0, owner in lit_errs:
            blk1 = [b2 for b2, t2 in ctx.find_calls(owner, r"^darling_core::error::Error::unsupported_format$")][0]
            ctx.requires("C14.G.literal-item-is-error", owner, blk1, "unsupported_format", [r"discr\([^=]*\)=Lit$"])
        located_rule(ctx, "C14.G.value-error-located-under-key", f, conv)
        # ---- main loop
        handles = ctx.find_calls(f, r"^darling_core::error::Accumulator::handle$")
        pushes = ctx.find_calls(f, r"^darling_core::error::Accumulator::push$")
        inserts = ctx.find_calls(f, r"(HashMap|BTreeMap)::<.*>::insert$")
        seen_ins = ctx.find_calls(f, r"HashSet::<.*>::insert$")
        contains = ctx.find_calls(f, r"HashSet::<.*>::contains")
        keyc = ctx.find_calls(f, r"KeyFromPath>::from_path$")
        fw = ctx.find_calls(f, r"Accumulator::finish_with$|Accumulator::finish$")
        ctx.ob("C14.shape.loop", f.key, "one map.insert, one seen_keys.insert, one contains, one key conversion, one finish",
               (len(inserts), len(seen_ins), len(keyc), len(fw)) == (1, 1, 1, 1) and len(contains) <= 1 and len(handles) + len(pushes) + len(ctx.find_calls(f, r"Extend<darling_core::error::Error>>::extend$")) >= 3,
               str((len(handles), len(pushes), len(inserts), len(seen_ins), len(contains), len(keyc), len(fw))))
        if not (keyc and inserts and seen_ins and fw):
            continue
        # "already seen" is asked with `contains` before a later insert, or answered by the insert
        # itself (`seen_keys.insert(k)` is false exactly when k was there)
        insert_is_test = not contains
        kt = mir.callee_info(keyc[0][1]).get("self_ty")
        ctx.ob("C14.F.key-conversion-type", f.key, "<%s as KeyFromPath>::from_path" % key, kt == key, "key converted with %s" % kt)
        KEYOK = r"is_ok\(.*KeyFromPath>::from_path\(.*\)\)=True"
        KEYBAD = r"is_ok\(.*KeyFromPath>::from_path\(.*\)\)=False"
        SEEN_T = r"HashSet::<T, S(, A)?>::contains\(.*\)=True|HashSet::<T, S(, A)?>::insert\(.*\)=False"
        SEEN_F = r"HashSet::<T, S(, A)?>::contains\(.*\)=False|HashSet::<T, S(, A)?>::insert\(.*\)=True"
        # key failure: push the key error and still handle the value
        bad_push = [(blk, t) for blk, t in pushes if ctx.pc_strs(f, blk) and all(ctx._sat(d, KEYBAD) for d in ctx.pc_strs(f, blk))]
        bad_handle = [(blk, t) for blk, t in handles if all(ctx._sat(d, KEYBAD) for d in ctx.pc_strs(f, blk)) and ctx.pc_strs(f, blk)]
        key_err = [(blk, t) for blk, t in bad_push if "from_path(" in ctx.expr(f, t["args"][1])]
        val_rec = bad_handle + [(blk, t) for blk, t in bad_push if "from_path(" not in ctx.expr(f, t["args"][1])]
        # (or both at once: `errors.extend(once(key_error).chain(value.err()))`)
        for blk_, t_ in ctx.find_calls(f, r"Extend<darling_core::error::Error>>::extend$"):
            e_ = ctx.expr(f, t_["args"][1])
            pcs_ = ctx.pc_strs(f, blk_)
            if pcs_ and all(ctx._sat(d, KEYBAD) for d in pcs_) and "from_path(" in e_ and "iter::sources::once::once(" in e_ and "Iterator::chain(" in e_ and "Result::<T, E>::err(" in e_:
                key_err.append((blk_, t_))
                val_rec.append((blk_, t_))
        ctx.ob("C14.G.bad-key-reported", f.key, "Err(e) => errors.push(e)", len(key_err) == 1, "%d pushes of the key error under a failed key conversion" % len(key_err))
        ctx.ob("C14.G.bad-key-still-reports-value", f.key, "the value's error is recorded under a failed key", len(val_rec) == 1, "%d" % len(val_rec))
        # map.insert requires value Ok and not seen
        blk, t = inserts[0]
        ctx.requires("C14.G.insert-only-fresh-ok", f, blk, "map.insert", [KEYOK, SEEN_F, r"is_ok\(\(.* as Some\)\.0\.1\)=True|discr\(\(.*\)\.1\)=Ok|is_ok\(.*\.1\)=True|is_ok\(.*from_meta\(.*\)=True"])
        ins_val = ctx.expr(f, t["args"][2])
        ctx.ob("C14.G.insert-value-is-converted-value", f.key, "inserted value", bool(re.search(r"as Ok\)\.0$", ins_val)) and "from_path(" not in ins_val, "inserts %s" % ins_val[:140])
        ins_key = ctx.expr(f, t["args"][1])
        ctx.ob("C14.G.insert-key-is-converted-key", f.key, "inserted key", "KeyFromPath>::from_path(" in ins_key and ("clone(" in ins_key or "clone(" in ctx.expr(f, seen_ins[0][1]["args"][1])), "key %s" % ins_key[:160])
        # duplicate push requires seen
        # (built in the loop or by one private helper / provided method of the private key trait)
        dup = ctx.find_calls_deep(f, r"^darling_core::error::Error::duplicate_field$", helpers=1)
        ctx.ob("C14.G.duplicate-shape", f.key, "one duplicate_field", len(dup) == 1, "%d" % len(dup))
        for b2, t2, o2 in dup:
            ctx.requires("C14.G.duplicate-iff-seen", f, b2, "duplicate_field", [KEYOK, SEEN_T])
        via = [o2 for _, _, o2 in dup if o2 is not f]
        dpush = [(b2, t2) for b2, t2 in pushes if "duplicate_field(" in ctx.expr(f, t2["args"][1]) or any(o2.key + "(" in ctx.expr(f, t2["args"][1]) for o2 in via)]
        ok = len(dpush) == 1 and ("with_span(" in ctx.expr(f, dpush[0][1]["args"][1]) or any(all("with_span(" in r_ for r_ in ctx.ret_values(o2)) for o2 in via))
        ctx.ob("C14.G.duplicate-pushed-spanned", f.key, "errors.push(duplicate_field(..).with_span(path))", ok, "%s" % [ctx.expr(f, t2["args"][1])[:120] for _, t2 in dpush])
        # value error pushed
        vpush = [(b2, t2) for b2, t2 in pushes if re.search(r"as Err\)\.0$", ctx.expr(f, t2["args"][1])) and "from_path(" not in ctx.expr(f, t2["args"][1])
                 and all(ctx._sat(d, KEYOK) for d in ctx.pc_strs(f, b2))]
        ctx.ob("C14.G.bad-value-reported", f.key, "Err(e) => errors.push(e)", len(vpush) == 1, "%d" % len(vpush))
        for b2, t2 in vpush:
            ctx.requires("C14.G.bad-value-reported", f, b2, "push(value error)", [KEYOK])
        # seen_keys.insert on every path after a successful key conversion back to the loop head
        sblk = seen_ins[0][0]
        ctx.requires("C14.P.seen-recorded", f, sblk, "seen_keys.insert(key)", [KEYOK])
        # must-pass-through: from the Ok-key edge every path to the next iteration passes through seen_keys.insert
        nexts = [b2 for b2, t2 in ctx.find_calls(f, r"Iterator>::next$")]
        if insert_is_test:
            # the insert is the test: it must not stand behind a test of the value
            ok = all(not any(re.search(r"\.1\)?=|from_meta\(", a_) and "from_path(" not in a_ for a_ in d) for d in ctx.pc_strs(f, sblk))
        else:
            cblk = contains[0][0]
            reach = f.reachable(cblk, False, avoid={sblk})
            ok = not any(n in reach for n in nexts) and not any(b2 in reach for b2, _ in fw)
        ctx.ob("C14.P.seen-recorded-on-every-path", f.key, "contains(..) … seen_keys.insert(key)", ok, "every path from the seen test to the next iteration (or the exit) must record the key, including the failed-value path")
        # result
        rs = ctx.ret_values(f)
        ok = len(rs) == 1 and rs[0].startswith("darling_core::error::Accumulator::finish_with(darling_core::error::Error::accumulator(), ")
        if not ok:
            # `errors.finish()?; Ok(map)`
            FIN = "darling_core::error::Accumulator::finish(darling_core::error::Error::accumulator())"
            cs_ = resalg.cases(ctx, f)
            okr = [v for c, v in cs_ if "is_ok(%s)=True" % FIN in c]
            err = [v for c, v in cs_ if "is_ok(%s)=False" % FIN in c]
            ok = bool(okr) and all(v.startswith("core::result::Result::Ok{") for v in okr) and bool(err) and all(v == "core::result::Result::Err{(%s as Err).0}" % FIN for v in err)
        ctx.ob("C14.G.result-through-accumulator", f.key, "errors.finish_with(map)", ok, "returns %s" % [r[:140] for r in rs])
        seqs[(key, kind)] = norm_seq(ctx, f)
    ctx.floor("C14.maps", "map instantiations", len(seqs), 5)
    # sibling agreement: same callee sequence modulo container and key type
    ref = None
    for k, s in sorted(seqs.items()):
        if ref is None:
            ref = (k, s)
            continue
        ctx.ob("C14.S.same-callee-sequence", "map!(%s, %s)" % (k[1], k[0]), "vs map!(%s, %s)" % (ref[0][1], ref[0][0]), s == ref[1],
               "callee sequences differ: %s" % [(a, b) for a, b in zip(s, ref[1]) if a != b][:4] if s != ref[1] else "identical (%d calls)" % len(s))
    # KeyFromPath
    f = ctx.fn("<proc_macro2::Ident as darling_core::from_meta::KeyFromPath>::from_path")
    if f:
        # the case table: an identifier key is a path of exactly one segment, without a leading `::`
        # and without generic arguments – however the three tests are written
        cs = resalg.cases(ctx, f)
        okr = [(c, v) for c, v in cs if v.startswith("core::result::Result::Ok{")]
        def single(c):
            if "len(a1.segments)=1" in c:
                return True
            nx = [a for a in c if re.match(r"^is_some\(.*Iterator>::next\(.*a1\.segments.*\)\)=(True|False)$", a)]
            return any(a.endswith("=True") for a in nx) and any(a.endswith("=False") for a in nx)     # first next() Some, second None
        ok = bool(okr) and all(single(c) and "is_some(a1.leading_colon)=False" in c and any(re.match(r"^syn::path::PathArguments::is_empty\(.*\)=True$", a) for a in c) for c, v in okr)
        ctx.ob("C14.G.ident-key-single-plain-segment", f.key, "Ok(ident)", ok, "Ok under %s" % [c for c, v in okr])
        ctx.ob("C14.G.ident-key-shape", f.key, "one Ok", len(okr) == 1 and all(re.search(r"clone\(.*\.ident\)\}$", v) for c, v in okr), "%d Ok cases" % len(okr))
    f = ctx.fn("<alloc::string::String as darling_core::from_meta::KeyFromPath>::from_path")
    if f:
        rs = ctx.ret_values(f)
        ctx.ob("C14.G.string-key", f.key, "Ok(path_to_string(path))", rs == ["core::result::Result::Ok{darling_core::util::path_to_string::path_to_string(a1)}"], "%s" % rs)
    f = ctx.fn("<syn::path::Path as darling_core::from_meta::KeyFromPath>::from_path")
    if f:
        rs = ctx.ret_values(f)
        ctx.ob("C14.G.path-key", f.key, "Ok(path.clone())", len(rs) == 1 and re.match(r"^core::result::Result::Ok\{.*clone\(a1\)\}$", rs[0]) is not None, "%s" % rs)
    # value errors are "located under their key": the key is prepended by Error::at_path -> Error::at,
    # and bundles hand their path down (rules shared with C04)
    from .C04 import location_rules
    location_rules(ctx, "C14.loc")
    return ctx.finish(
        explanation="Guard/pairing rules on the %d map instantiations and their closures; callee-sequence agreement between them; KeyFromPath impls." % len(seqs),
        assumptions=["HashSet/HashMap/BTreeMap behave as documented", "map size and content are value-level"],
    )

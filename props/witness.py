"""Compile-fail witnesses (rule W): doctests in /verif/witness run with `cargo +nightly test --doc`."""
import os
import re
import shutil
import subprocess
import tempfile

from vlib import facts

WIT = os.path.join(facts.VERIF, "witness")


def run_witnesses(ctx, pid):
    src = os.path.join(WIT, "src", "lib.rs")
    if not os.path.exists(src):
        ctx.notes.append("witness crate not present; W rules skipped")
        return
    text = open(src).read()
    # which witnesses belong to this property: items documented with `// W:<pid>:<name>` markers
    names = re.findall(r"W:%s:(\w+)" % pid, text)
    if not names:
        return
    tgt = tempfile.mkdtemp(prefix="verif-wit-")
    try:
        shutil.copy(os.path.join(facts.REPO, "Cargo.lock"), os.path.join(WIT, "Cargo.lock"))
        env = dict(os.environ)
        env.update({"CARGO_NET_OFFLINE": "true", "CARGO_TARGET_DIR": tgt})
        p = subprocess.run(["cargo", "+nightly", "test", "--doc", "--offline", "--", "--test-threads", "8"], cwd=WIT, env=env, stdout=subprocess.PIPE, stderr=subprocess.STDOUT, text=True)
        out = p.stdout
        for n in names:
            m = re.search(r"test src/lib\.rs - %s \(line \d+\)( - compile fail)? \.\.\. (\w+)" % re.escape(n), out)
            ok = bool(m) and m.group(2) == "ok"
            ctx.ob("%s.W.%s" % (pid, n), "witness::%s" % n, "doctest", ok, (m.group(0) if m else "doctest did not run: " + out[-600:]))
    finally:
        shutil.rmtree(tgt, ignore_errors=True)

"""C01 – derived struct receivers compute exactly the declared field mapping.

Decided: effective-name and default precedence in the options layer (G), option → codegen field
wiring (field identity), addressability agreement (S), unknown-name routing precedence (G on
templates), initialiser / presence-check agreement (S), extraction pipeline order and container
post-transform placement (H), and per derived program [B]: every slot write is control-dependent
on its own effective-name constant, goes through the declared converter, the default is evaluated
only when the slot is empty, `Self{..}` takes field f from slot f, unknown items reach the
flatten buffer in loop order and exactly one hand-off.
Not decided: that parsing succeeds on every mistake-free input; literal-form acceptance."""
import re

from vlib import resalg, mir, scan, tpl, derived
from vlib import sym as S
from . import common

META = dict(
    level="precedence guards of the options layer and the emission conditions of every field template are decided for all receiver declarations; slot/name/converter/default wiring is decided per derived program of the population",
    technique="static analysis: path-condition guards, field-identity dataflow, sibling-template agreement, control-dependence on name constants in derived MIR",
)
IF = "darling_core::options::input_field::InputField::"


def default_synthesis_rules(ctx, P):
    """Which default a field gets when it declares none: the container's (Inherit) when the container
    has one, `Default::default()` (Trait) only for a field that is really skipped (`skip` present
    *and* true), nothing otherwise – so a field without a default stays required, and the emitted
    code asks for `Default` only where the documentation says so.  Shared with C02 (a required
    item that is absent is a mistake) and C20 (accepted options compile).  The constructions may
    stand in the function or in a closure handed to an Option combinator."""
    f = ctx.fn(IF + "with_inherited")
    if not f:
        return
    bodies = [f] + ctx._closures_deep(f)
    inh = [(b, blk, st) for b in bodies for blk, i, st in ctx.find_aggregates(b, r"options::DefaultExpression$", "Inherit")]
    trt = [(b, blk, st) for b in bodies for blk, i, st in ctx.find_aggregates(b, r"options::DefaultExpression$", "Trait")]
    ctx.ob(P + ".default-shape", f.key, "one Inherit, one Trait construction", (len(inh), len(trt)) == (1, 1), "%d/%d" % (len(inh), len(trt)))
    for b, blk, st in inh:
        ctx.requires(P + ".default-precedence", b, blk, "Inherit", [r"is_some\(self\.default\)=False", r"is_some\(a2\.default\)=True"])
    for b, blk, st in trt:
        ctx.requires(P + ".default-precedence", b, blk, "Trait{span}", [r"is_some\(self\.default\)=False", r"is_some\(a2\.default\)=False", r"is_some\(self\.skip\)=True", r"\(self\.skip as Some\)\.0=True"])


def run(ctx):
    core = ctx.core("on")
    # ------------------------------------------------------------ with_inherited
    f = ctx.fn(IF + "with_inherited")
    if f:
        # the rename rule is applied to the Rust name only when no explicit name was given, whether the
        # call stands in an `if`, in a closure handed to or_else / get_or_insert_with, or in a helper
        ren = ctx.find_calls_deep(f, r"^ident_case::RenameRule::apply_to_", helpers=1)
        ctx.ob("C01.G.name-rule-callee", f.key, "rename call", [mir.callee_of(t) for _, t, _ in ren] == ["ident_case::RenameRule::apply_to_field"], "calls %s" % [mir.callee_of(t) for _, t, _ in ren])
        for _, t, o in ren:
            b_ = [x for x, y in o.calls() if y is t][0]
            ctx.requires("C01.G.explicit-name-wins", o, b_, "apply_to_field", [r"is_some\(self\.attr_name\)=False"])
            a0, a1 = ctx.expr(o, t["args"][0]), ctx.expr(o, t["args"][1])
            ctx.ob("C01.G.name-rule-args", f.key, "apply_to_field(parent.rename_rule, ident)", re.search(r"(a2|parent)\.rename_rule$", a0) is not None and re.search(r"to_string\((self(\.|__))?ident\)", a1) is not None, "args (%s, %s)" % (a0, a1))
        common.inherit_when_absent(ctx, "C01.G.explicit-name-wins", "C01.G.name-value", f, "attr_name", r"Some\{ident_case::RenameRule::apply_to_field\(")
        default_synthesis_rules(ctx, "C01.G")
        # the field's own default is kept when present
        # whatever the layout (a tuple match with a pass-through arm, or a guard clause that returns
        # early): no write to self.default that can run while it is Some stores anything else
        kept = True
        detail = []
        writes = ctx.find_field_assigns(f, "default", 1)
        for blk, i, st in writes:
            for d in ctx.pc_strs(f, blk) or [set()]:
                for conds, v in resalg.expr_cases(ctx, f, st["r"]):
                    both = set(d) | set(conds)
                    if "is_some(self.default)=True" in both and "is_some(self.default)=False" in both:
                        continue
                    if "is_some(self.default)=False" in both:
                        continue
                    detail.append((sorted(both), v[:100]))
                    if v not in ("self.default", "core::option::Option::Some{(self.default as Some).0}"):
                        kept = False
        ctx.ob("C01.G.own-default-kept", f.key, "a declared default is never overwritten", kept and bool(writes), "writes that can run while self.default is Some: %s" % detail)
        nones = [(blk, st) for blk, i, st in ctx.find_aggregates(f, r"^core::option::Option$", "None")]
        for blk, st in nones:
            ctx.requires("C01.G.no-default", f, blk, "None", [r"is_some\(self\.default\)=False", r"is_some\(a2\.default\)=False"])
    # ------------------------------------------------------------ as_codegen_field wiring
    f = ctx.fn(IF + "as_codegen_field")
    if f:
        aggs = ctx.find_aggregates(f, r"codegen::field::Field$")
        ctx.ob("C01.wire.shape", f.key, "one Field construction", len(aggs) == 1, "%d" % len(aggs))
        if aggs:
            r = aggs[0][2]["r"]
            # every codegen Field member as a case table over the parsed options (helpers,
            # combinators and closures looked through): the wiring is the identity except for the
            # documented fallbacks
            m = {n: sorted(resalg.expr_cases(ctx, f, o)) for n, o in zip(r["fields"], r["ops"])}
            D = "darling_core::codegen::default_expr::DefaultExpression::"
            want = {
                "ident": [([], "self.ident")], "ty": [([], "self.ty")], "post_transform": [([], "self.post_transform")],
                "skip": [([], "unwrap_or_default(self.skip)")], "multiple": [([], "unwrap_or_default(self.multiple)")],
                "flatten": [([], "is_some(self.flatten.0)")],
                "name_in_attr": sorted([(["is_some(self.attr_name)=True"], "alloc::borrow::Cow::Borrowed{(self.attr_name as Some).0}"),
                                        (["is_some(self.attr_name)=False"], "alloc::borrow::Cow::Owned{<T as alloc::string::ToString>::to_string(self.ident)}")]),
                "default_expression": sorted([
                    (["discr((self.default as Some).0)=Trait", "is_some(self.default)=True"], "core::option::Option::Some{%sTrait{((self.default as Some).0 as Trait).span}}" % D),
                    (["discr((self.default as Some).0)=Inherit", "is_some(self.default)=True"], "core::option::Option::Some{%sInherit{self.ident}}" % D),
                    (["discr((self.default as Some).0)=Explicit", "is_some(self.default)=True"], "core::option::Option::Some{%sExplicit{((self.default as Some).0 as Explicit).0}}" % D),
                    (["is_some(self.default)=False"], "core::option::Option::None{}")]),
            }
            for k, w in want.items():
                ctx.ob("C01.wire.field-identity", f.key, "Field.%s" % k, m.get(k) == w, "Field.%s <= %s" % (k, str(m.get(k, "?"))[:300]))
            wc = m.get("with_callable", [])
            ok = len(wc) == 2 and (["is_some(self.with)=True"], "alloc::borrow::Cow::Borrowed{(self.with as Some).0.call}") in wc and any(c == ["is_some(self.with)=False"] and v.startswith("alloc::borrow::Cow::Owned{syn::parse_quote::parse(") for c, v in wc)
            ctx.ob("C01.wire.field-identity", f.key, "Field.with_callable", ok, "Field.with_callable <= %s" % wc)
            # the fallback converter (no `with`): the type's own FromMeta::from_meta
            fb = [(c, " ".join(T.text(s) for s in T.by_stream)) for c in [f] + ctx.closures_of(f) for T in [tpl.Templates(c)] if T.events]
            ctx.ob("C01.wire.converter-fallback", f.key, "default converter", any(":: darling :: FromMeta :: from_meta" in txt for c, txt in fb), "parse_quote! templates: %s" % [txt[:80] for c, txt in fb])
    f = ctx.fn(IF + "as_codegen_default")
    if f:
        for c in ctx.closures_of(f):
            for blk, i, st in ctx.find_aggregates(c, r"codegen::default_expr::DefaultExpression$"):
                v = st["r"]["variant"]
                want = {"Explicit": "Explicit", "Inherit": "Inherit", "Trait": "Trait"}[v]
                ctx.requires("C01.wire.default-kind", c, blk, "codegen::DefaultExpression::%s" % v, [r"discr\(a2\)=%s$" % want])
                if v == "Inherit":
                    ctx.ob("C01.wire.inherit-names-same-field", c.key, "Inherit(&self.ident)", ctx.expr(c, st["r"]).endswith("Inherit{self.ident}"), ctx.expr(c, st["r"]))
    # DefaultExpression::Inherit emits `__default.<ident>`
    f = ctx.fn(common.TOK % "default_expr::DefaultExpression<'_>")
    if f:
        T = tpl.Templates(f)
        for tk in T.all_tokens(("punct",)):
            pass
        ok = False
        for s in T.by_stream:
            txt = T.text(s)
            if re.match(r"^⟨proc_macro2::Ident⟩ \. ⟨proc_macro2::Ident⟩$", txt):
                ok = all(ctx._sat(d, r"discr\(self\)=Inherit") for d in ctx.pc_strs(f, T.by_stream[s][0].blk))
        ctx.ob("C01.H.inherit-template", f.key, "#dsn.#ident", ok, "Inherit must emit __default.<field ident>")

    # ------------------------------------------------------------ S: addressability agreement
    f_name = ctx.fn("darling_core::codegen::field::Field::<'a>::as_name")
    f_arm = ctx.fn(common.TOK % "field::MatchArm<'_>")
    if f_name and f_arm:
        somes = ctx.find_aggregates(f_name, r"^core::option::Option$", "Some")
        pcs = [sorted(d) for blk, i, st in somes for d in ctx.pc_strs(f_name, blk)]
        if not somes:
            # `cond.then(|| name)` and friends: the Some cases of the case table
            pcs = [sorted(c) for c, v in resalg.cases(ctx, f_name) if v.startswith("core::option::Option::Some{")]
        T = tpl.Templates(f_arm)
        arm_pcs = []
        for tk in T.events:
            arm_pcs.extend(sorted(a for a in d if "multiple" not in a) for d in ctx.pc_strs(f_arm, tk.blk))
        # an arm generator that asks as_name itself stands under as_name's own condition
        ask = "is_some(darling_core::codegen::field::Field::<'a>::as_name(self.0))=True"
        if len(pcs) == 1:
            own = [a.replace("self.", "self.0.", 1) for a in pcs[0]]
            arm_pcs = [sorted(set([a for a in d if a != ask] + (own if ask in d else []))) for d in arm_pcs]
        arm_set = {tuple(x) for x in arm_pcs}
        ctx.ob("C01.S.addressable-agreement", f_name.key, "as_name vs MatchArm", pcs == [["self.flatten=False", "self.skip=False"]] and arm_set == {("self.0.flatten=False", "self.0.skip=False")},
               "as_name yields a name under %s; MatchArm emits under %s" % (pcs, sorted(arm_set)))
    # ------------------------------------------------------------ unknown-name routing precedence
    f = ctx.fn("darling_core::codegen::variant_data::FieldsGen::<'a>::core_loop")
    if f:
        n = 0
        anyc = []
        # the routing of unknown names may be generated in core_loop itself or in a helper it calls
        for g in [f] + ctx.local_callees(f, depth=2):
            T = tpl.Templates(g)
            for tk in T.all_tokens(("ident",)):
                if tk.text == "__flatten":
                    n += 1
                    ctx.requires("C01.G.route-flatten-first", g, tk.blk, "__flatten.push", [r"Iterator(>)?::any\(.*\)=True"])
                if tk.text in ("unknown_field", "unknown_field_with_alts"):
                    n += 1
                    group_keys = [x.key for x in ctx.generator_group(f)]
                    if g.key in group_keys:
                        ctx.requires("C01.G.route-error-last", g, tk.blk, "unknown-field error", [r"Iterator(>)?::any\(.*\)=False", r"self\.allow_unknown_fields=False"])
                    else:
                        # a piece built by a helper shared with other generators: what counts is where
                        # this generator asks for it
                        for gg in ctx.generator_group(f):
                            for b_, t_ in gg.calls():
                                if mir.callee_of(t_) == g.key:
                                    ctx.requires("C01.G.route-error-last", gg, b_, "unknown-field error (built by %s)" % g.key.rsplit("::", 1)[-1], [r"Iterator(>)?::any\(.*\)=False", r"self\.allow_unknown_fields=False"])
            # the `any` closure tests the flatten flag
            anyc += [c for c in ctx.closures_of(g) if ctx.true_conditions(c) == [{"a2.flatten=True"}] and any(c.key in ctx.expr(g, t["args"][1]) for _, t in ctx.find_calls(g, r"Iterator(>)?::any$"))]
        ctx.floor("C01.G.route", "routing templates in core_loop", n, 3)
        ctx.ob("C01.G.route-any-is-flatten", f.key, "any(|f| f.flatten)", len(anyc) == 1, "`any` closures testing f.flatten: %d" % len(anyc))
        T = tpl.Templates(f)
        txt = " ".join(T.render(T.root_streams()[-1])) if T.root_streams() else ""
        ok = bool(re.search(r"let __name = :: darling :: util :: path_to_string \( __inner \. path \( \) \) ; match __name \. as_str \( \) \{ .* __other => \{", txt))
        ctx.ob("C01.H.dispatch-on-item-name", f.key, "match path_to_string(__inner.path())", ok, txt[:300])
    # unknown names reach the flatten field "in order": the buffer is append-only across items and attributes
    common.buffers_only_pushed(ctx, "C01.H.flatten-buffer-append-only")
    # ------------------------------------------------------------ initialiser / presence-check agreement
    ini = ctx.fn(common.TOK % "field::Initializer<'_>")
    chk = ctx.fn(common.TOK % "field::CheckMissing<'_>")
    if ini and chk:
        Ti = tpl.Templates(ini)
        for s in Ti.by_stream:
            if Ti.by_stream[s][0].kind == "append":
                continue
            txt = Ti.text(s)
            pc = [sorted(d) for d in ctx.pc_strs(ini, Ti.by_stream[s][0].blk)]
            if "expect" in txt:
                ctx.ob("C01.S.required-field", ini.key, "expect branch", pc == [["is_some(self.0.default_expression)=False", "self.0.multiple=False"]], "emitted under %s" % pc)
            elif "if let Some ( __val )" in txt:
                ok = bool(re.search(r": if let Some \( __val \) = ⟨proc_macro2::Ident⟩ \. 1 \{ __val \} else \{ ⟨darling_core::codegen::default_expr::DefaultExpression<'_>⟩ \}", txt))
                ctx.ob("C01.H.slot-before-default", ini.key, "single value with default", ok and pc == [["is_some(self.0.default_expression)=True", "self.0.multiple=False"]], "%s under %s" % (txt[:160], pc))
            elif "is_empty" in txt:
                ok = bool(re.search(r": if ! ⟨proc_macro2::Ident⟩ \. is_empty \( \) \{ ⟨proc_macro2::Ident⟩ \} else \{ ⟨darling_core::codegen::default_expr::DefaultExpression<'_>⟩ \}", txt))
                ctx.ob("C01.H.slot-before-default", ini.key, "multiple with default", ok and pc == [["is_some(self.0.default_expression)=True", "self.0.multiple=True"]], "%s under %s" % (txt[:160], pc))
    # ------------------------------------------------------------ extraction pipeline order
    f = f_arm
    if f:
        T = tpl.Templates(f)
        txt = " ".join(T.render(T.root_streams()[-1])) if T.root_streams() else ""
        rx = r":: darling :: export :: identity :: < fn \( & :: (darling :: export :: )?syn :: Meta \) -> :: darling :: Result < _ >> \( ⟨syn::expr::Expr⟩ \) \( __inner \) ⟨core::option::Option<darling_core::codegen::postfix_transform::PostfixTransform>⟩ \. map_err \("
        n = len(re.findall(rx, txt))
        ctx.ob("C01.H.pipeline-order", f.key, "converter(__inner) → post_transform → map_err", n >= 2, "%d extractors in that order" % n)
    f = ctx.fn("<darling_core::codegen::postfix_transform::PostfixTransform as quote::to_tokens::ToTokens>::to_tokens")
    if f:
        T = tpl.Templates(f)
        txt = " | ".join(T.text(s) for s in T.root_streams())
        ctx.ob("C01.H.post-transform-template", f.key, ".#transformer(#function)", ". ⟨proc_macro2::Ident⟩ ( ⟨syn::path::Path⟩ )" in txt, txt)
    # container post_transform is applied in every fn-body shape that constructs the receiver (F12)
    from .C02 import FN_BODY_TEMPLATES
    for key in FN_BODY_TEMPLATES[:6]:
        f = ctx.fn(key)
        if not f:
            continue
        T = tpl.Templates(f)
        for s in T.root_streams():
            toks = T.stream_tokens(s)
            txt = T.text(s)
            if not re.search(r"\bfn\b", txt):
                continue
            pc = [sorted(d) for d in ctx.pc_strs(f, T.by_stream[s][0].blk)]
            shape = _shape_of(pc)
            has_pt = any(tk.kind == "interp" and "post_transform_call(" in (tk.expr or "") for tk in toks)
            constructs = bool(re.search(r"Ok \( (Self \{|⟨proc_macro2::Ident⟩)", txt)) or ". map ( ⟨proc_macro2::Ident⟩ )" in txt or "⟨quote::__private::RepInterp<darling_core::codegen::variant::DataMatchArm" in txt
            if not constructs:
                continue
            ev = "fn-body template for %s" % shape
            ctx.ob("C01.S.container-post-transform", f.key, ev, has_pt,
                   "F12: the %s body constructs the receiver without applying the container's map/and_then (#post_transform is not interpolated)" % shape)
    # ------------------------------------------------------------ [B]
    pop = [b for b in derived.population(ctx) if not b.key.endswith("__validate_body")]
    n_slots = 0
    for b in pop:
        D = derived.DerivedFn(b)
        if not D.slots:
            continue
        name_of = {}  # slot -> constants under which it is written
        for slot, fname in D.slots.items():
            n_slots += 1
            writes = [(blk, first, second) for blk, first, second, node in D.slot_assignments(slot) if first == "true"]
            consts = set()
            flatten = False
            for blk, first, second in writes:
                if re.search(r"FromMeta(>)?::from_list\(", second) and "identity(" not in second:
                    flatten = True
                    continue
                # name tests that hold on EVERY path to the write (or-patterns such as `"a" | "b" =>` hold on some paths only)
                conds_w = D.conds(blk)
                always = None
                for d_ in conds_w:
                    pos = {m_.group(1) for a_ in d_ for m_ in [re.search(r'PartialEq for str>::eq\(.*, "((?:[^"\\]|\\.)*)"\)=True$', a_)] if m_}
                    always = pos if always is None else always & pos
                cands = [nt for nt in D.name_tests if nt[3] is not None and b.dominates(nt[3], blk) and nt[1] in (always or set())]
                inner = [c for c in cands if all(b.dominates(o[2], c[2]) for o in cands)]
                cs = {c[1] for c in inner}
                outer_key = tuple(sorted(c[1] for c in cands if c not in inner))
                ok = bool(cs) and len(cs) == 1
                ctx.ob("C01.B.write-under-own-name", b.key, "slot %s" % fname, ok, "slot %s is written under name constants %s" % (fname, sorted(cs or [])))
                if cs:
                    consts |= {(outer_key, c) for c in cs}
                # converter: identity::<fn>(X)(__inner) inside handle(map_err(..))
                ctx.ob("C01.B.through-coerced-converter", b.key, "slot %s" % fname, "core::convert::identity(" in second and "Accumulator::handle(" in second, "value = %s" % second[:140])
            name_of[slot] = consts
            if flatten:
                # hand-off happens exactly once, after the item loop
                hand = [(blk, s2) for blk, f1, s2 in writes if re.search(r"FromMeta(>)?::from_list\(", s2) and "identity(" not in s2]
                heads = D.loop_headers()
                outside = all(not any(b.dominates(h, blk) and h in b.reachable(blk, False) for h in heads) for blk, _ in hand)
                ctx.ob("C01.B.flatten-single-handoff", b.key, "slot %s" % fname, len(hand) == 1 and outside, "%d hand-offs, outside loops: %s" % (len(hand), outside))
        # distinct slots have distinct names
        allc = [c for s in name_of.values() for c in s]
        ctx.ob("C01.B.names-distinct", b.key, "name constants", len(allc) == len(set(allc)), "constants %s" % sorted(allc))
        # provenance: Self { f: <from slot f> }
        for blk, st in D.ok_blocks:
            e = D.sym.operand(st["r"]["ops"][0])
            agg = _find_receiver_agg(e)
            if not agg:
                continue
            adt = agg[1]
            fields = _agg_fields(b, adt)
            if not fields or len(fields) != len(agg[2]):
                continue
            slots_by_name = {}
            for s_, n_ in D.slots.items():
                slots_by_name.setdefault(n_, []).append(s_)
            for fname, val in zip(fields, agg[2]):
                if fname in slots_by_name:
                    locs = _sources(b, D.sym, val)
                    mine = [l for l in locs if l in slots_by_name[fname]]
                    others = [D.slots[l] for l in locs if l in D.slots and l not in slots_by_name[fname]]
                    ctx.ob("C01.B.provenance", b.key, "field %s" % fname, len(mine) == 1 and not others, "field %s is built from slots %s" % (fname, sorted(D.slots.get(l, "_%d" % l) for l in locs if l in D.slots)))
    ctx.floor("C01.B", "field slots in derived code", n_slots, 120)
    if ctx.tier == "thorough":
        from . import corpus
        n_tab = corpus.name_table_rules(ctx, "C01", "struct")
        ctx.floor("C01.N", "corpus struct receivers with a recovered dispatch table", n_tab, 100)
    return ctx.finish(
        explanation="Precedence guards of with_inherited, field-identity wiring of as_codegen_field, emission conditions of the field templates, routing precedence in core_loop, container post-transform placement, and slot/name/converter/provenance rules over %d derived fns (%d slots)." % (len(pop), n_slots),
        assumptions=["[B] rules quantify over the receivers in tests/ and examples/ (plus the corpus in thorough)", "literal-form acceptance is C11/C13's subject"],
    )


def _shape_of(pc):
    s = " ".join(a for d in pc for a in d)
    if "discr(self.base.data)=Enum" in s:
        return "enum"
    if re.search(r"discr\([^=]*\.style\)=Unit\b", s):
        return "unit struct"
    if re.search(r"len\([^=]*fields\)=1\b", s):
        return "newtype struct"
    if "is_newtype(" in s and "=True" in s.split("is_newtype(")[1][:60]:
        return "newtype struct"
    return "named struct"


def common_skip(toks, i):
    """toks[i] == '(' : index after the matching ')'."""
    depth = 0
    while i < len(toks):
        if toks[i] in ("(", "[", "{", "«"):
            depth += 1
        elif toks[i] in (")", "]", "}", "»"):
            depth -= 1
            if depth == 0:
                return i + 1
        i += 1
    return i


def _find_receiver_agg(e):
    if not isinstance(e, tuple):
        return None
    if e[0] == "agg" and "::" in e[1] and not e[1].startswith("core::") and e[1] not in ("tuple", "array"):
        return e
    if e[0] == "call":
        for a in e[2]:
            r = _find_receiver_agg(a)
            if r:
                return r
    return None


def _agg_fields(b, adt_variant):
    for blk, i, st in b.stmts():
        if st["k"] == "assign" and st["r"]["k"] == "aggregate" and st["r"]["agg"] == "adt" and "%s::%s" % (st["r"]["adt"], st["r"]["variant"]) == adt_variant:
            return st["r"]["fields"]
    return None


def _sources(b, sy, e, depth=0, seen=None):
    """Locals (transitively, through every definition of multi-definition temporaries) a value is built from."""
    seen = seen if seen is not None else set()
    out = set()
    for l in _locals_in(e):
        out.add(l)
        if l in seen or depth > 6:
            continue
        seen.add(l)
        for d in b.defs().get(l, []):
            if b.is_cleanup(d[0]) or d[2] not in ("assign", "call"):
                continue
            out |= _sources(b, sy, sy._def_expr(d, 0), depth + 1, seen)
    return out


def _locals_in(e):
    out = set()
    if isinstance(e, tuple):
        if e and e[0] == "local":
            out.add(e[1])
        for x in e:
            if isinstance(x, tuple):
                out |= _locals_in(x)
    return out

"""C15 – attribute syntax is split into items and routed to conversion hooks by form.

Decided: the lookahead structure of `Parse for NestedMeta` (literal vs item, `true = …` is an
item, `::` + ident is an item, otherwise error); `parse_meta_list` = `parse_terminated`; the
default dispatchers' per-variant callee identity (E): each form is routed to exactly one hook
with the right sub-node; default leaf hooks return only the documented error constructors;
every dispatcher exit passes through with_span(own node); `ToTokens for NestedMeta` delegates
per variant.  Not decided: the accept/reject boundary of token streams and the print-parse round
trip (syn's grammar is the trusted base)."""
import re

from vlib import resalg, mir
from . import common
from .C03 import check_dispatcher

META = dict(
    level="routing by form is decided on every path of the default dispatchers (one hook per form, correct sub-node, exhaustive over the syn enums); the token-level grammar is delegated to syn",
    technique="static analysis: exhaustive-switch and callee-identity rules, lookahead guard rules",
)
FM = "darling_core::from_meta::FromMeta"
T = FM + "::"


def by_variant(ctx, f, base="a1"):
    """variant atom -> list of return exprs"""
    out = {}
    for blk, e in ctx.ret_exprs(f):
        for d in ctx.pc_strs(f, blk):
            ks = [a for a in d if a.startswith("discr(%s)=" % base)]
            out.setdefault(ks[0] if ks else "", []).append(e)
    return out


def peeled_param(ctx, f):
    """`while let Expr::Group(g) = *expr { expr = &g.expr; }` in front of the match: the local the
    match runs on is the parameter with every invisible-group layer taken off – the same function
    as the recursive `Expr::Group(g) => Self::from_expr(&g.expr)` arm.  Returns the local's name
    (`_N`) when exactly that loop is found: two definitions, the parameter and the inner expression
    of its own Group payload, the second one only under `is Group`."""
    s, _ = ctx.sym(f)
    for l, ds in f.defs().items():
        ds = [d for d in ds if not f.is_cleanup(d[0]) and d[2] in ("assign", "call")]
        if l <= f.arg_count or len(ds) != 2:
            continue
        es = [ctx.expr(f, d[3]["r"]) if d[2] == "assign" else "call" for d in ds]
        name = "_%d" % l
        init = [i for i, e in enumerate(es) if e == "a1"]
        step = [i for i, e in enumerate(es) if re.match(r"^\(%s as Group\)\.0\.expr(\.0\.pointer)?$" % name, e)]
        if len(init) == 1 and len(step) == 1:
            pcs = ctx.pc_strs(f, ds[step[0]][0])
            if pcs and all("discr(%s)=Group" % name in d for d in pcs):
                return name
    return None


def dispatcher_cases(ctx, f):
    """case table of a dispatcher; a parameter peeled of its Group layers by a loop reads as the
    parameter (second value: whether that was done)"""
    cs = resalg.cases(ctx, f)
    p = peeled_param(ctx, f)
    if not p:
        return cs, False
    rx = re.compile(r"\b%s\b" % re.escape(p))
    return [(sorted(rx.sub("a1", a) for a in c), rx.sub("a1", v)) for c, v in cs], True


def inner_by_variant(ctx, f, base="a1"):
    """Routing table of a dispatcher, read off its case table (vlib.resalg): per variant of the
    argument, the calls whose outcome decides the result (`is_ok(call)` conditions), or the value
    itself when the arm does not call anything.  The layout of the match (bound to a local or not,
    `?` or explicit arms) does not matter."""
    out = {}
    for conds, v in dispatcher_cases(ctx, f)[0]:
        ks = [a for a in conds if a.startswith("discr(%s)=" % base)]
        k = ks[0] if ks else ""
        srcs = []
        for a in conds:
            m = re.match(r"^is_ok\((.*)\)=(True|False)$", a)
            if m:
                srcs.append(m.group(1))
        if not srcs:
            m = re.match(r"^core::result::Result::Err\{darling_core::error::Error::with_span\((.*), %s\)\}$" % base, v)
            srcs = ["core::result::Result::Err{%s}" % m.group(1)] if m else [v]
        for x in srcs:
            if x not in out.setdefault(k, []):
                out[k].append(x)
    return out


def item_grammar_rules(ctx, P):
    """Literal-versus-item lookahead of `Parse for NestedMeta` (shared with C13: path lists and whole
    meta items in list position, leading `::` included, are read through it)."""
    # ---------------------------------------------------------------- Parse for NestedMeta
    f = ctx.fn("<darling_core::ast::data::NestedMeta as syn::parse::Parse>::parse")
    if f:
        PK = r"ParseBuffer::<'a>::peek\(a1, fn syn::lit::Lit\)"
        PB = r"ParseBuffer::<'a>::peek\(a1, fn syn::lit::LitBool\)"
        P2 = r"ParseBuffer::<'a>::peek2\(a1, fn syn::token::Eq\)"
        PI = r"ParseBuffer::<'a>::peek\(a1, <proc_macro2::Ident as syn::ext::IdentExt>::peek_any\)"
        PS = r"ParseBuffer::<'a>::peek\(a1, fn syn::token::PathSep\)"
        P3 = r"ParseBuffer::<'a>::peek3\(a1, <proc_macro2::Ident as syn::ext::IdentExt>::peek_any\)"
        maps = ctx.find_calls(f, r"^core::result::Result::<T, E>::map$")
        lit = [(b, t) for b, t in maps if ctx.expr(f, t["args"][1]).endswith("NestedMeta::Lit")]
        met = [(b, t) for b, t in maps if ctx.expr(f, t["args"][1]).endswith("NestedMeta::Meta")]
        ctx.ob(P + ".G.parse-shape", f.key, "one literal parse, one item parse, one error", len(lit) == 1 and len(met) == 1 and len(ctx.find_calls(f, r"ParseBuffer::<'a>::error$")) == 1, "%d/%d" % (len(lit), len(met)))
        for b, t in lit:
            ctx.requires(P + ".G.literal-lookahead", f, b, "parse → NestedMeta::Lit", [PK + "=True", PB + "=False"], alt=[[PK + "=True", PB + "=True", P2 + "=False"]])
            ctx.forbids(P + ".G.bool-before-eq-is-an-item", f, b, "parse → NestedMeta::Lit", [PB + "=True", P2 + "=True"])
        for b, t in met:
            ctx.requires(P + ".G.item-lookahead", f, b, "parse → NestedMeta::Meta", [PI + "=True"], alt=[[PI + "=False", PS + "=True", P3 + "=True"]])
        for b, t in ctx.find_calls(f, r"ParseBuffer::<'a>::error$"):
            ctx.requires(P + ".G.otherwise-error", f, b, "error", [PI + "=False", PS + "=False"], alt=[[PI + "=False", PS + "=True", P3 + "=False"]])
        # the parsed types
        ps = ctx.find_calls(f, r"^syn::parse::ParseBuffer::<'a>::parse$")
        tys = sorted((mir.callee_info(t).get("targs") or ["?"])[0] for _, t in ps)
        ctx.ob(P + ".F.parsed-types", f.key, "parse::<syn::Lit> / parse::<syn::Meta>", tys == ["syn::attr::Meta", "syn::lit::Lit"], "%s" % tys)


def default_expr_routing_rules(ctx, P):
    """Default `from_expr`: a literal goes to from_value, an invisible group is transparent, and every
    other expression form (parenthesised ones included) is rejected.  Shared with C11: the scalar
    targets do not override from_expr, so "wrong meta form => error" is decided here."""
    f = ctx.fn(T + "from_expr")
    if f:
        v = inner_by_variant(ctx, f)
        ok_lit = v.get("discr(a1)=Lit") == ["%sfrom_value((a1 as Lit).0.lit)" % T]
        grp = v.get("discr(a1)=Group") or []
        ok_grp = len(grp) == 1 and grp[0].startswith("%sfrom_expr((a1 as Group).0.expr" % T)
        if not grp and peeled_param(ctx, f):
            # the groups are taken off by a loop in front of the match (no Group case is left)
            ok_grp = True
            grp = ["peeled by a loop before the match"]
        ctx.ob(P + ".E.expr-routing-literal", f.key, "Lit → from_value(&lit.lit)", ok_lit, "%s" % v.get("discr(a1)=Lit"))
        ctx.ob(P + ".E.expr-routing-group-transparent", f.key, "Group → from_expr(&group.expr)", ok_grp, "%s" % grp)
        # closed: whatever is neither a literal nor an invisible group is an error
        REJ = ["core::result::Result::Err{darling_core::error::Error::unexpected_expr_type(a1)}"]
        others = {k: x for k, x in v.items() if k not in ("discr(a1)=Lit", "discr(a1)=Group")}
        ctx.ob(P + ".E.expr-routing-otherwise-rejects", f.key, "every other form → unexpected_expr_type(expr)", bool(others) and all(x == REJ for x in others.values()),
               "arms other than Lit / Group: %s" % {k: [y[:100] for y in x] for k, x in others.items()})
        if P == "C15":
            check_dispatcher(ctx, f)


def run(ctx):
    item_grammar_rules(ctx, "C15")
    f = ctx.fn("darling_core::ast::data::NestedMeta::parse_meta_list")
    if f:
        cs = resalg.cases(ctx, f)
        P = "<F as syn::parse::Parser>::parse2(fn syn::punctuated::Punctuated::<T, P>::parse_terminated, a1)"
        okv = [v for c, v in cs if "is_ok(%s)=True" % P in c]
        erv = [v for c, v in cs if "is_ok(%s)=False" % P in c]
        ctx.ob("C15.F.list-is-parse-terminated", f.key, "Punctuated::<NestedMeta, Comma>::parse_terminated.parse2(tokens)", len(cs) == 2 and len(okv) == 1 and erv in (["core::result::Result::Err{(%s as Err).0}" % P], ["core::result::Result::Err{From::from((%s as Err).0)}" % P]), "%s" % [(c, v[:200]) for c, v in cs])
        want = "core::result::Result::Ok{core::iter::traits::iterator::Iterator::collect(<syn::punctuated::Punctuated<T, P> as core::iter::traits::collect::IntoIterator>::into_iter((%s as Ok).0))}" % P
        # (`Vec::from_iter(x)` is `x.into_iter().collect::<Vec<_>>()`)
        SEQ = "core::result::Result::Ok{<alloc::vec::Vec<T> as core::iter::traits::collect::FromIterator<T>>::from_iter((%s as Ok).0)}" % P
        ok_order = okv == [want] or okv == [SEQ]
        if not ok_order and len(okv) == 1:
            # the same list built by a loop that pushes every item of the parsed sequence, in order
            hits = [h for h in ctx.per_element(f, r"^alloc::vec::Vec::<T, A>::push$") if h["form"] == "loop" and h["owner"] is f]
            if len(hits) == 1:
                src = hits[0]["source"]
                recv = ctx.expr(f, hits[0]["t"]["args"][0])
                elem = ctx.expr(f, hits[0]["t"]["args"][1])
                ok_order = "into_iter((%s as Ok).0)" % P in src.replace("<syn::punctuated::Punctuated<T, P> as core::iter::traits::collect::IntoIterator>::", "") and okv[0] == "core::result::Result::Ok{%s}" % recv and ("Iterator>::next(" in elem or "as Some).0" in elem)
        ctx.ob("C15.F.list-keeps-order", f.key, "punctuated.into_iter().collect()", ok_order, "%s" % [v[:300] for v in okv])
    f = ctx.fn("<darling_core::ast::data::NestedMeta as quote::to_tokens::ToTokens>::to_tokens")
    if f:
        m = {}
        for b, t in ctx.find_calls(f, r"ToTokens>::to_tokens$|printing::<impl quote::to_tokens::ToTokens for |ToTokens::to_tokens$"):
            # what is printed, per variant: the call may stand in each arm, or once after a match that
            # picked the payload
            for conds, v in resalg.expr_cases(ctx, f, t["args"][0]):
                for d in ctx.pc_strs(f, b) or [set()]:
                    vs = {mm.group(1) for a in list(d) + list(conds) for mm in [re.match(r"^discr\(self\)=(\w+)$", a)] if mm}
                    if len(vs) == 1:
                        m[vs.pop()] = v
        ctx.ob("C15.E.print-delegates-per-variant", f.key, "Meta → meta.to_tokens, Lit → lit.to_tokens", m == {"Meta": "(self as Meta).0", "Lit": "(self as Lit).0"}, "%s" % m)

    # ---------------------------------------------------------------- default dispatchers
    # "an error returned by any hook comes back carrying the item's span unless it already carried
    # one": in the case table of each default dispatcher every failing case is with_span(<error>, item)
    for h in ("from_nested_meta", "from_meta", "from_expr", "from_value"):
        f = ctx.fn(T + h)
        if not f:
            continue
        failing = [(c, v) for c, v in dispatcher_cases(ctx, f)[0] if v.startswith("core::result::Result::Err{")]
        ctx.ob("C15.G.hook-errors-get-item-span", f.key, "failing cases exist", len(failing) >= 2, "%d failing cases" % len(failing))
        for c, v in failing:
            spanned = re.match(r"^core::result::Result::Err\{darling_core::error::Error::with_span\(.*, a1\)\}$", v) is not None \
                or re.match(r"^core::result::Result::Err\{darling_core::error::Error::unexpected_(lit|expr)_type\(a1\)\}$", v) is not None   # these span themselves with the item (C03.G.spanning-constructors)
            syn_err = re.match(r"^core::result::Result::Err\{From::from\(\(darling_core::ast::data::NestedMeta::parse_meta_list\(.*\) as Err\)\.0\)\}$", v) is not None
            ctx.ob("C15.G.hook-errors-get-item-span", f.key, "failing case under %s" % [a[:60] for a in c if a.startswith("discr(")], spanned or syn_err,
                   "an error leaves the default %s without .with_span(item): %s" % (h, v[:200]))
    f = ctx.fn(T + "from_nested_meta")
    if f:
        v = inner_by_variant(ctx, f)
        want = {"discr(a1)=Lit": "%sfrom_value((a1 as Lit).0)" % T, "discr(a1)=Meta": "%sfrom_meta((a1 as Meta).0)" % T}
        ctx.ob("C15.E.nested-meta-routing", f.key, "Lit → from_value, Meta → from_meta", {k: x for k, x in v.items()} == {k: [x] for k, x in want.items()}, "%s" % v)
        check_dispatcher(ctx, f)
    f = ctx.fn(T + "from_meta")
    if f:
        v = inner_by_variant(ctx, f)
        ok_path = v.get("discr(a1)=Path") == ["%sfrom_word()" % T]
        ok_nv = v.get("discr(a1)=NameValue") == ["%sfrom_expr((a1 as NameValue).0.value)" % T]
        lst = v.get("discr(a1)=List") or []
        # `&v[..]`, `&v` (deref coercion) and `v.as_slice()` hand the same slice to from_list
        ok_list = any(re.match(r"^%sfrom_list\((?:.*index\()?\(darling_core::ast::data::NestedMeta::parse_meta_list\(.*clone\(\(a1 as List\)\.0\.tokens\)\) as Ok\)\.0[,)]" % re.escape(T), e) for e in lst)
        ctx.ob("C15.E.meta-routing-word", f.key, "Path → from_word()", ok_path, "%s" % v.get("discr(a1)=Path"))
        ctx.ob("C15.E.meta-routing-value", f.key, "NameValue → from_expr(&value.value)", ok_nv, "%s" % v.get("discr(a1)=NameValue"))
        ctx.ob("C15.E.meta-routing-list", f.key, "List → from_list(&parse_meta_list(tokens.clone())?[..])", ok_list, "%s" % [e[:200] for e in lst])
        ctx.ob("C15.E.meta-routing-exhaustive", f.key, "three forms", set(v) >= {"discr(a1)=Path", "discr(a1)=NameValue", "discr(a1)=List"}, "%s" % sorted(v))
        # an unparsable list is an error that keeps syn's span (from_residual of syn::Error → Error::from)
        bad = [v2 for c2, v2 in resalg.cases(ctx, f) if any(re.match(r"^is_ok\(darling_core::ast::data::NestedMeta::parse_meta_list\(.*\)\)=False$", a) for a in c2)]
        # (a `.with_span(item)` around it changes nothing: the converted syn error already carries its own span – C03.G)
        ok = len(bad) == 1 and re.match(r"^core::result::Result::Err\{(darling_core::error::Error::with_span\()?From::from\(\(darling_core::ast::data::NestedMeta::parse_meta_list\(.*\) as Err\)\.0\)(, a1\))?\}$", bad[0]) is not None
        ctx.ob("C15.G.bad-list-is-error", f.key, "parse_meta_list(..) fails => Err(Error::from(syn error))", ok, "%s" % [x[:200] for x in bad])
        check_dispatcher(ctx, f)
    default_expr_routing_rules(ctx, "C15")
    # "carrying the item's span unless it already carried one": what `.with_span(item)` means
    from .C03 import with_span_semantics
    with_span_semantics(ctx, "C15.span")
    f = ctx.fn(T + "from_value")
    if f:
        v = inner_by_variant(ctx, f)
        ok_b = v.get("discr(a1)=Bool") == ["%sfrom_bool((a1 as Bool).0.value)" % T]
        ok_s = v.get("discr(a1)=Str") == ["%sfrom_string(syn::lit::LitStr::value((a1 as Str).0))" % T]
        ok_c = v.get("discr(a1)=Char") == ["%sfrom_char(syn::lit::LitChar::value((a1 as Char).0))" % T]
        oth = [x for k, x in v.items() if "not-in" in k]
        ok_oth = oth == [["core::result::Result::Err{darling_core::error::Error::unexpected_lit_type(a1)}"]]
        ctx.ob("C15.E.value-routing-bool", f.key, "Bool → from_bool(b.value)", ok_b, "%s" % v.get("discr(a1)=Bool"))
        ctx.ob("C15.E.value-routing-string", f.key, "Str → from_string(&s.value())", ok_s, "%s" % v.get("discr(a1)=Str"))
        ctx.ob("C15.E.value-routing-char", f.key, "Char → from_char(ch.value())", ok_c, "%s" % v.get("discr(a1)=Char"))
        ctx.ob("C15.E.value-routing-otherwise-rejects", f.key, "_ → unexpected_lit_type(value)", ok_oth, "%s" % oth)
        check_dispatcher(ctx, f)
    # ---------------------------------------------------------------- default leaf hooks
    leaves = {
        "from_word": 'core::result::Result::Err{darling_core::error::Error::unsupported_format("word")}',
        "from_list": 'core::result::Result::Err{darling_core::error::Error::unsupported_format("list")}',
        "from_char": 'core::result::Result::Err{darling_core::error::Error::unexpected_type("char")}',
        "from_string": 'core::result::Result::Err{darling_core::error::Error::unexpected_type("string")}',
        "from_bool": 'core::result::Result::Err{darling_core::error::Error::unexpected_type("bool")}',
        "from_none": "core::option::Option::None{}",
    }
    for h, want in leaves.items():
        f = ctx.fn(T + h)
        if f:
            rs = ctx.ret_values(f)
            ctx.ob("C15.G.default-hook-rejects", f.key, "default %s" % h, rs == [want], "returns %s" % rs)
    # the trait has exactly the eleven hooks the routing above covers
    core = ctx.core("on")
    defaults = sorted(b.key.rsplit("::", 1)[-1] for b in ctx.all_bodies(core) if b.key.startswith(T) and b.kind != "Closure")
    ctx.ob("C15.S.hook-set", FM, "provided methods", defaults == sorted(["from_nested_meta", "from_meta", "from_none", "from_word", "from_list", "from_value", "from_expr", "from_char", "from_string", "from_bool"]), "%s" % defaults)
    return ctx.finish(
        explanation="Lookahead guards of NestedMeta::parse, per-variant routing (callee + sub-node identity) of the four default dispatchers, default leaf hooks, ToTokens delegation.",
        assumptions=["syn's Lit/Meta parsers and Punctuated::parse_terminated define the token-level grammar (trusted base)"],
    )

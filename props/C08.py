"""C08 – attribute selection, merging across attributes, and forwarding.

Decided: the structural cause of partition invariance – one set of slots and one accumulator
declared before the attribute loop, never inside it [A,H + B]; the selection match (scrutinee,
declared-name arms, forwarding arms, `continue` default) and the forward filter's emission
conditions (G); scrutinee and arm strings come from the same string function (S, F17); the
forwarded list is only ever `push(attr.clone())`-ed in loop order [B]; unselected attributes are
never parsed [B]; parse_attribute_to_meta_list's per-form behaviour (E).
Not decided: invariance under every partition as a metamorphic statement over inputs."""
import re

from vlib import mir, scan, sym, tpl, derived
from . import common

META = dict(
    level="the template of the attribute extractor and the forward filter are decided for all receivers; slot placement, forwarding writes and parse gating are decided per derived element-level fn of the population",
    technique="static analysis: template IR order/guard rules, sibling string-function agreement, loop-membership and control-dependence rules on derived MIR",
)
EXT = "darling_core::codegen::attr_extractor::ExtractAttribute::extractor"
ELEMENT_TRAITS = ("darling_core::from_derive_input::FromDeriveInput", "darling_core::from_field::FromField", "darling_core::from_variant::FromVariant",
                  "darling_core::from_type_param::FromTypeParam", "darling_core::from_attributes::FromAttributes")


def run(ctx):
    core = ctx.core("on")
    f = ctx.fn(EXT)
    if f:
        T = tpl.Templates(f)
        main = None
        for s in T.root_streams():
            if "for __attr in" in T.text(s):
                main = s
        ctx.ob("C08.H.loop-template", f.key, "for __attr in … template", main is not None, "the extractor must emit exactly one attribute loop")
        if main is not None:
            toks = T.render(main)
            txt = " ".join(toks)
            i_for = toks.index("for")
            head = toks[:i_for]
            ctx.ob("C08.H.slots-before-loop", f.key, "declarations precede the loop", head[:1] == ["⟨proc_macro2::TokenStream⟩"] and head[1:2] in (["⟨core::option::Option<darling_core::codegen::attrs_field::Declaration<'_>>⟩"], ["⟨darling_core::codegen::attrs_field::Declaration<'_>⟩"]),
                   "tokens before `for`: %s" % head[:8])
            body = toks[i_for:]
            decl_inside = [t for t in body if "Declaration" in t or t == "let" and False]
            lets = [i for i, t in enumerate(body) if t == "let"]
            ctx.ob("C08.H.no-declaration-in-loop", f.key, "no slot / accumulator declaration inside the loop", not decl_inside and not lets, "declarations inside the loop: %s" % (decl_inside or [body[i:i + 4] for i in lets]))
            # the declarations interpolation is local_declarations() + forwarded-field Declaration
            st = [tk for tk in T.stream_tokens(main) if tk.kind == "interp"]
            ctx.ob("C08.H.declarations-source", f.key, "#declarations", bool(st) and "ExtractAttribute::local_declarations(self)" in (st[0].expr or ""), "first interpolation comes from %s" % (st[0].expr if st else None))
            # selection match
            m = re.search(r"for __attr in (?:& )?⟨proc_macro2::TokenStream⟩(?: \. attrs)? \{ match (.*?) \. as_str \( \) \{ \| ⟨quote::__private::RepInterp<str>⟩ => \{", txt)
            ctx.ob("C08.H.selection-match", f.key, "match <attr path string> { #(#attr_names)|* => {…} #forward_unhandled }", bool(m), txt[:260])
            scrut = m.group(1) if m else ""
            ctx.ob("C08.H.scrutinee-is-attr-path", f.key, "scrutinee", "__attr . path ( )" in scrut, "scrutinee: %s" % scrut)
            # F17: same string function on both sides
            arms_fn = arm_string_fn(ctx)
            scrut_uses_pts = ":: darling :: util :: path_to_string (" in scrut
            ctx.ob("C08.S.scrutinee-and-arms-same-string-fn", f.key, "scrutinee string vs arm strings", scrut_uses_pts == (arms_fn == "path_to_string") and scrut_uses_pts,
                   "F17: arm strings are produced by %s (\"a::b\"), the scrutinee by `%s` (token printing, \"a :: b\"): multi-segment attribute names never match" % (arms_fn, scrut.strip()))
            ok = bool(re.search(r":: darling :: export :: Ok \( ref __items \) => \{ if __items \. is_empty \( \) \{ continue ; \} ⟨proc_macro2::TokenStream⟩ \}", txt))
            # (the same arm as `if !__items.is_empty() { core loop }` when nothing follows it)
            ok = ok or bool(re.search(r":: darling :: export :: Ok \( ref __items \) => \{ if ! __items \. is_empty \( \) \{ ⟨proc_macro2::TokenStream⟩ \} \}", txt))
            ctx.ob("C08.H.empty-attribute-skipped", f.key, "empty list => continue, else core loop", ok, "Ok(ref __items) arm")
            ok = txt.rstrip().endswith("⟨darling_core::codegen::attrs_field::MatchArms<'_>⟩ } } ⟨core::option::Option<darling_core::codegen::attrs_field::ValuePopulator<'_>>⟩")
            ctx.ob("C08.H.forward-arms-last-then-populate", f.key, "… #forward_unhandled } } #fwd_population", ok, txt[-220:])
            # the attribute source is the element's attrs
            acc = ctx.fn("darling_core::codegen::attr_extractor::ExtractAttribute::attrs_accessor")
            if acc:
                Ta = tpl.Templates(acc)
                ta = " | ".join(Ta.text(s) for s in Ta.root_streams())
                ctx.ob("C08.H.attrs-accessor", acc.key, "&#input.attrs", ta == "& ⟨proc_macro2::TokenStream⟩ . attrs", ta)
        # the empty template (nothing to parse, nothing to forward) has no loop
        for s in T.root_streams():
            if s == main:
                continue
            pc = ctx.pc_strs(f, T.by_stream[s][-1].blk)
            ok = all(ctx._sat(d, r"will_forward_any\(.*\)=False") and ctx._sat(d, r"^len\(.*attr_names\(self\)(\.0)?\)=0$") for d in pc)
            ctx.ob("C08.G.no-loop-only-when-nothing-selected", f.key, "declarations-only template (stream _%s)" % s, ok, "emitted under %s" % [sorted(d) for d in pc])
    # ------------------------------------------------------------ forward filter arms
    f = ctx.fn(common.TOK % "attrs_field::MatchArms<'_>")
    if f:
        T = tpl.Templates(f)
        seen = {"none": 0, "all": 0, "only": 0}
        # what is emitted under each state of the filter: the templates that stand under that state,
        # read in program order (one template or several appended one after the other)
        groups = {"only": [], "all": [], "none": []}
        # what reaches the output, with the condition under which it does: where the piece is built,
        # where it is assigned to the local that is appended, and where the append stands
        def conj(*pcss):
            out = [set()]
            for pcs in pcss:
                # (the state of a repetition's own iterator is not a condition on the generator's input)
                pcs = [{a_ for a_ in d if "Iterator>::next(" not in a_} for d in (pcs or [set()])]
                out = [a_ | b_ for a_ in out for b_ in pcs]

            def consistent(d):
                seen_ = {}
                for a_ in d:
                    l, _, r = a_.rpartition("=")
                    if r.startswith("('not-in'"):
                        continue
                    if l in seen_ and seen_[l] != r:
                        return False
                    seen_[l] = r
                for a_ in d:
                    l, _, r = a_.rpartition("=")
                    if r.startswith("('not-in'") and l in seen_ and ("'%s'" % seen_[l]) in r:
                        return False
                return True
            res = []
            for d in out:
                if consistent(d) and d not in res:
                    res.append(d)
            return res
        for tk in T.events:
            if tk.kind != "append":
                continue
            for s, sites in T.stream_alts_sites(tk.inner):
                if not T.by_stream.get(s) or T.by_stream[s][0].kind == "append":
                    continue
                blk0 = T.by_stream[s][0].blk
                pcs = conj(ctx.pc_strs(f, blk0), ctx.pc_strs(f, tk.blk), *[ctx.pc_strs(f, b_) for b_ in sites])
                if pcs and all(ctx._sat(d, r"discr\(.*self\.0\.filter.*\)=Only$") for d in pcs):
                    groups["only"].append((tk.blk, T.text(s), pcs))
                elif pcs and all(ctx._sat(d, r"discr\(.*self\.0\.filter.*\)=All$") for d in pcs):
                    groups["all"].append((tk.blk, T.text(s), pcs))
                else:
                    groups["none"].append((tk.blk, T.text(s), pcs))
        for k in groups:
            groups[k].sort(key=lambda x: x[0])
        for blk0, txt, pcs in groups["none"]:
            seen["none"] += 1
            ok = all(ctx._sat(d, r"will_forward_any\(self\.0\)=False") for d in pcs)
            if not ok:
                # a path that never asks but already excludes every way to forward anything
                ok = ctx.strs_entail_call(f, pcs, "darling_core::codegen::attrs_field::ForwardAttrs::<'_>::will_forward_any", [("field", ("param", 1, "self"), "0")], False)
            ctx.ob("C08.G.forward-none", f.key, "`_ => continue` only", ok and txt.rstrip(" ,") == "_ => continue", "%s under %s" % (txt, [sorted(d) for d in pcs]))
        if groups["all"]:
            seen["all"] += 1
            txt = " ".join(x[1] for x in groups["all"])
            ctx.ob("C08.G.forward-all", f.key, "`_ => push`", txt.rstrip(" ,") == "_ => __fwd_attrs . push ( __attr . clone ( ) )", "%s under %s" % (txt, [sorted(d) for d in groups["all"][0][2]]))
        if groups["only"]:
            seen["only"] += 1
            txt = " ".join(x[1] for x in groups["only"])
            want = "| ⟨quote::__private::RepInterp<str>⟩ => __fwd_attrs . push ( __attr . clone ( ) ) , _ => continue"
            ctx.ob("C08.G.forward-only-listed", f.key, "`#(#names)|* => push, _ => continue`", txt.rstrip(" ,") == want, "%s under %s" % (txt, [sorted(d) for d in groups["only"][0][2]]))
        ctx.ob("C08.G.forward-arms-complete", f.key, "three arm shapes", seen == {"none": 1, "all": 1, "only": 1}, str(seen))
        # the listed names are the filter's own strings
        nm = ctx.find_calls(f, r"PathList::to_strings$")
        ctx.ob("C08.G.forward-only-names", f.key, "names = idents.to_strings()", len(nm) == 1 and "self.0.filter" in ctx.expr(f, nm[0][1]["args"][0]), "%s" % [ctx.expr(f, t["args"][0])[:120] for _, t in nm])
    f = ctx.fn("darling_core::codegen::attrs_field::ForwardAttrs::<'_>::will_forward_any")
    if f:
        tc = ctx.true_conditions(f)
        ctx.ob("C08.G.will-forward-any", f.key, "true result", bool(tc) and all("is_some(self.filter)=True" in d for d in tc), "true under %s" % [sorted(d) for d in tc])
    for name, want in (("Declaration<'_>", "let mut __fwd_attrs : :: darling :: export :: Vec < :: darling :: export :: syn :: Attribute > = vec ! [ ] ; let mut ⟨proc_macro2::Ident⟩ : :: darling :: export :: Option < _ > = None ;"),):
        f = ctx.fn(common.TOK % ("attrs_field::" + name))
        if f:
            T = tpl.Templates(f)
            txt = " | ".join(T.text(s) for s in T.root_streams())
            ctx.ob("C08.H.forward-declaration", f.key, "declaration template", txt == want, txt)
    f = ctx.fn(common.TOK % "attrs_field::ValuePopulator<'_>")
    if f:
        T = tpl.Templates(f)
        txt = " | ".join(T.text(s) for s in T.root_streams())
        # the two alternatives, in whichever order the generator lists them
        forms = sorted({" ".join(x) for s in T.root_streams() for x in tpl.expand_alts(T.render(s))})
        ok = forms == sorted(["⟨proc_macro2::Ident⟩ = __errors . handle ( ⟨syn::path::Path⟩ ( __fwd_attrs ) ) ;", "⟨proc_macro2::Ident⟩ = :: darling :: export :: Some ( __fwd_attrs ) ;"])
        ctx.ob("C08.H.forward-populator", f.key, "attrs = Some(__fwd_attrs) | handle(with(__fwd_attrs))", ok, txt)
    # a failing value of a `multiple` field is located `name[i]` with i = how many values the field has
    # collected so far over *all* attributes (the length of its cross-attribute slot), so that the way
    # the items are split over attributes does not show in the error
    f = ctx.fn(common.TOK % "field::MatchArm<'_>")
    if f:
        T = tpl.Templates(f)
        forms = [" ".join(x) for s in T.root_streams() for x in tpl.expand_alts(T.render(s))]
        # (the indexed location goes with the arm that pushes: both are chosen by `field.multiple`)
        multi = [x for x in forms if '"{}[{}]"' in x and ". push ( __val )" in x]
        IDX = r'format ! \( "\{\}\[\{\}\]" , ⟨str⟩ , (\S+(?: \. len \( \))?) \)'
        ok = bool(multi)
        for x in multi:
            m_ = re.search(IDX, x)
            if not m_:
                ok = False
                continue
            idx = m_.group(1)
            if idx == "⟨proc_macro2::Ident⟩ . len ( )":
                continue
            ok = ok and re.search(r"let %s = ⟨proc_macro2::Ident⟩ \. len \( \) ;" % re.escape(idx), x) is not None
        ctx.ob("C08.H.multiple-index-counts-across-attributes", f.key, "name[i] with i = slot.len()", ok, "%s" % [x[:260] for x in multi][:2])
    # the buffers that live across attributes (__flatten, __fwd_attrs) are only ever pushed to by the per-list / per-attribute code
    common.buffers_only_pushed(ctx, "C08.H.cross-attribute-buffers-only-pushed")
    # ------------------------------------------------------------ parse_attribute_to_meta_list
    f = ctx.fn("darling_core::util::parse_attribute::parse_attribute_to_meta_list")
    if f:
        outs = {}
        for d in f.defs().get(0, []):
            blk, i, kind, node = d
            if f.is_cleanup(blk) or kind != "assign":
                continue
            e = ctx.expr(f, node["r"])
            for dd in ctx.pc_strs(f, blk):
                for a in dd:
                    m = re.match(r"^discr\(a1\.meta\)=(\w+)$", a)
                    if m:
                        outs.setdefault(m.group(1), []).append(e)
        ok = set(outs) == {"Path", "List", "NameValue"}
        ctx.ob("C08.E.attribute-forms", f.key, "every syn::Meta form handled", ok, "forms: %s" % sorted(outs))
        if ok:
            ctx.ob("C08.E.list-is-cloned", f.key, "List => Ok(list.clone())", all(re.search(r"^core::result::Result::Ok\{.*Clone.*clone\(\(a1\.meta as List\)\.0\)\}$", e) for e in outs["List"]), str(outs["List"])[:200])
            def empty_list(e):
                if e.startswith("core::result::Result::Ok{syn::attr::MetaList::MetaList{") and ("Default>::default()" in e or "proc_macro2::TokenStream::new()" in e):
                    return True
                # the list built by a private helper of the module
                m = re.match(r"^core::result::Result::Ok\{(darling_core::[\w:]+)\(", e)
                h = ctx.fn(m.group(1), required=False) if m else None
                if h is None or not str(h.raw.get("vis", "")).startswith("Restricted"):
                    return False
                vals = ctx.ret_values(h)
                return bool(vals) and all(v.startswith("syn::attr::MetaList::MetaList{") and ("Default>::default()" in v or "proc_macro2::TokenStream::new()" in v) for v in vals)
            ctx.ob("C08.E.path-is-empty-list", f.key, "Path => Ok(empty MetaList)", all(empty_list(e) for e in outs["Path"]), str(outs["Path"])[:260])
            ctx.ob("C08.E.name-value-is-error", f.key, "NameValue => Err(spanned)", all(e.startswith("core::result::Result::Err{darling_core::error::Error::with_span(") for e in outs["NameValue"]), str(outs["NameValue"])[:200])

    # ------------------------------------------------------------ [B]
    pop = [b for b in derived.population(ctx) if (b.impl or {}).get("trait") in ELEMENT_TRAITS and b.key.rsplit("::", 1)[-1].startswith("from_")]
    ctx.floor("C08.B", "derived element-level fns", len(pop), 45)
    n_fwd = n_parse = 0
    for b in pop:
        D = derived.DerivedFn(b)
        heads = D.loop_headers()

        def in_loop(blk):
            return any(b.dominates(h, blk) and h in b.reachable(blk, False) for h in heads)
        # slot and accumulator initialisation outside every loop
        for slot, name in D.slots.items():
            inits = [blk for blk, first, second, node in D.slot_assignments(slot) if first == "false"]
            ctx.ob("C08.B.slot-init-outside-loops", b.key, "slot %s" % name, len(inits) == 1 and not in_loop(inits[0]), "initialisations at %s" % inits)
        for cb, t in D.creates:
            nm = D.names.get(t["dest"]["local"])
            if nm == "__errors":
                ctx.ob("C08.B.one-accumulator-outside-loops", b.key, "__errors", not in_loop(cb), "accumulator created at bb%d" % cb)
        # forwarding
        fwd = [l for l, n in D.names.items() if n == "__fwd_attrs"]
        for l in fwd:
            n_fwd += 1
            writes = []
            for blk, c, t in D.calls:
                if not t["args"] or t["args"][0]["k"] not in ("copy", "move"):
                    continue
                a0 = t["args"][0]
                if b.local_ty(a0["p"]["local"]).startswith("&mut") and tpl.ref_root(b, a0) == l:
                    writes.append((blk, c, t))
            ok = bool(writes) or True
            bad = []
            for blk, c, t in writes:
                if c == "alloc::vec::Vec::<T, A>::push":
                    v = D.expr(t["args"][1])
                    if not re.search(r"^(<syn::attr::Attribute as core::clone::Clone>|syn::gen::clone::<impl core::clone::Clone for syn::attr::Attribute>)::clone\(.*Iterator>::next\(", v) or not in_loop(blk):
                        bad.append("push(%s) at bb%d" % (v[:60], blk))
                else:
                    bad.append("%s at bb%d" % (c, blk))
            ctx.ob("C08.B.forward-unmodified-in-order", b.key, "__fwd_attrs", not bad, "writes other than push(attr.clone()) inside the loop: %s" % bad)
        # the flatten buffer: declared once outside every loop, then only pushed to / read
        for l in [l for l, n in D.names.items() if n == "__flatten"]:
            defs_ = [d for d in b.defs().get(l, []) if not b.is_cleanup(d[0]) and d[2] in ("assign", "call")]
            inl = [d[0] for d in defs_ if in_loop(d[0])]
            ctx.ob("C08.B.flatten-buffer-declared-once", b.key, "__flatten", len(defs_) == 1 and not inl, "definitions of the buffer at blocks %s (inside loops: %s)" % ([d[0] for d in defs_], inl))
        # parsing is gated by a declared attribute name
        for cb, t in D.calls_to(r"^darling_core::util::parse_attribute::parse_attribute_to_meta_list$"):
            n_parse += 1
            cands = [nt for nt in D.name_tests if nt[3] is not None and b.dominates(nt[3], cb)]
            # also or-patterns: several eq tests chained on the false edge all lead to the same arm
            gated = bool(cands) or any(nt[3] is not None and cb in b.reachable(nt[3], False) and "path" in nt[5] for nt in D.name_tests)
            ctx.ob("C08.B.parse-only-selected", b.key, "parse_attribute_to_meta_list", gated and in_loop(cb), "the parse call must sit in the arm of a declared attribute name inside the loop")
    ctx.floor("C08.B.parse", "attribute parse sites in derived code", n_parse, 50)
    return ctx.finish(
        explanation="Order/guard rules on the extractor, forward-filter and populator templates; per-form behaviour of parse_attribute_to_meta_list; loop-membership rules over %d derived element-level fns (%d forwarding lists, %d parse sites)." % (len(pop), n_fwd, n_parse),
        assumptions=["invariance under every partition is decided only through its structural cause (one set of slots and one accumulator outside an order-preserving loop)"],
    )


def arm_string_fn(ctx):
    """Which string function produces the arm names (PathList::to_strings)."""
    f = ctx.fn("darling_core::util::path_list::PathList::to_strings")
    if not f:
        return None
    for blk, t in f.calls():
        for a in t["args"]:
            e = ctx.expr(f, a)
            if "path_to_string" in e:
                return "path_to_string"
    return "unknown"

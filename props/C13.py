"""C13 – syntax-typed values reproduce the user's tokens; quoted and bare forms agree.

Thin slice: every override of `from_expr` either forwards the node unchanged or switches on the
expression kind with (a) a transparent `Group` arm recursing on the inner expression (F8),
(b) the matching variant's payload cloned, (c) `Lit` sent to `from_value`, (d) everything else
rejected by the self-spanned constructor; every `from_value` override parses `Lit::Str` with the
impl's own grammar (type-argument identity) and rejects other kinds; `from_string` uses
`parse_str::<Self>`; the two expression helpers differ only on the `Expr::Lit` edge.
Not decided: token-for-token equality and quoted/bare equality (value level)."""
import re

from vlib import resalg, mir
from . import common

META = dict(
    level="thin structural slice: branch structure, callee and type-argument identity of every syntax-valued conversion hook; token equality is not decided",
    technique="static analysis: sibling agreement over all from_expr/from_value/from_string overrides, path-condition rules",
)
FM = "darling_core::from_meta::FromMeta"
FORWARDERS = {"darling_core::util::spanned_value::SpannedValue<T>", "darling_core::options::DefaultExpression"}
VARIANT_OF = {"syn::path::Path": "Path", "proc_macro2::Ident": "Path", "syn::expr::ExprArray": "Array", "syn::expr::ExprPath": "Path", "syn::expr::ExprRange": "Range"}


def arms(ctx, f):
    """list of (set of expr-kind atoms, return expr)"""
    out = []
    for conds, v in resalg.cases(ctx, f):
        out.append((sorted(a for a in conds if a.startswith("discr(a1)=")), conds, v))
    return out


def run(ctx):
    core = ctx.core("on")
    impls = [i for i in core["impls"] if i["trait"] == FM]
    n_expr = n_val = n_str = 0
    for i in impls:
        ty = i["self"]
        if "from_expr" in i["items"]:
            f = ctx.fn("<%s as %s>::from_expr" % (ty, FM))
            if not f:
                continue
            n_expr += 1
            A = arms(ctx, f)
            switches = any(k for k, d, e in A)
            if ty in FORWARDERS or not switches:
                # a wrapper: forwards the node unchanged to another type's from_expr on every path
                rs = [e for _, _, e in A]
                ok = bool(rs) and all(re.search(r"FromMeta(>)?::from_expr\(a1\)", r) is not None for r in rs)
                ctx.ob("C13.F.from-expr-forwards", f.key, "forwards the node unchanged", ok, "returns %s" % [r[:120] for r in rs])
                continue
            grp = [e for k, d, e in A if k == ["discr(a1)=Group"]]
            ok = len(grp) == 1 and grp[0].startswith("<%s as %s>::from_expr((a1 as Group).0.expr" % (ty, FM))
            ctx.ob("C13.S.group-transparent", f.key, "Expr::Group arm recurses on the inner expression", ok,
                   ("F8: " if "Callable" in ty else "") + "no arm for Expr::Group: a value wrapped in an invisible group (macro_rules expansion) is rejected; arms: %s" % [k for k, d, e in A])
            if ty == "darling_core::util::callable::Callable":
                for k, d, e in A:
                    if k in (["discr(a1)=Closure"], ["discr(a1)=Path"]):
                        ctx.ob("C13.G.callable-keeps-tokens", f.key, "%s arm" % k[0], re.search(r"Callable\{syn::gen::clone::<impl core::clone::Clone for syn::expr::Expr>::clone\(a1\)\}", e) is not None, e[:160])
                    elif k and "not-in" in k[0]:
                        ctx.ob("C13.G.other-expr-rejected", f.key, "fallback arm", e == "core::result::Result::Err{darling_core::error::Error::unexpected_expr_type(a1)}", e[:160])
                continue
            # Lit arm
            lit = [(d, e) for k, d, e in A if k == ["discr(a1)=Lit"]]
            if ty == "syn::expr::Expr":
                ok = any(e == "<syn::expr::Expr as %s>::from_value((a1 as Lit).0.lit)" % FM and "discr((a1 as Lit).0.lit)=Str" in d for d, e in lit)
                ctx.ob("C13.G.expr-string-literal-is-parsed", f.key, "Lit::Str arm", ok, "%s" % [(d, e[:80]) for d, e in lit])
                others = [e for k, d, e in A if e != "<syn::expr::Expr as %s>::from_value((a1 as Lit).0.lit)" % FM and k != ["discr(a1)=Group"]]
                ok = bool(others) and all(re.match(r"^core::result::Result::Ok\{.*Clone for syn::expr::Expr>::clone\(a1\)\}$", e) for e in others)
                ctx.ob("C13.G.expr-kept-verbatim", f.key, "every other expression is cloned as written", ok, "%s" % [e[:100] for e in others])
                continue
            ok = len(lit) == 1 and lit[0][1] == "<%s as %s>::from_value((a1 as Lit).0.lit)" % (ty, FM)
            ctx.ob("C13.G.literal-goes-to-from-value", f.key, "Expr::Lit arm", ok, "%s" % [e[:120] for d, e in lit])
            # matching variant
            if ty in VARIANT_OF:
                v = VARIANT_OF[ty]
                va = [e for k, d, e in A if k == ["discr(a1)=%s" % v] and e.startswith("core::result::Result::Ok{")]
                ok = len(va) == 1 and re.search(r"clone\(.*\(a1 as %s\)\.0" % v, va[0]) is not None
                ctx.ob("C13.G.variant-payload-cloned", f.key, "Expr::%s arm" % v, ok, "%s" % [e[:160] for e in va])
            elif ty.startswith("alloc::vec::Vec<"):
                va = [e for k, d, e in A if k == ["discr(a1)=Array"]]
                ok = len(va) == 1 and "Iterator::collect(" in va[0] and "(a1 as Array).0.elems" in va[0]
                if not ok:
                    # the same arm as a loop: one push of the converted element per element of the
                    # array, into the vector that is returned
                    lp = [h for h in ctx.per_element(f, r"Vec::<.*>::push$") if h["form"] == "loop" and "(a1 as Array).0.elems" in h["source"]]
                    okv = [e for e in va if e.startswith("core::result::Result::Ok{")]
                    ok = len(lp) == 1 and len(okv) == 1 and ctx.expr(f, lp[0]["t"]["args"][0]) in okv[0] \
                        and re.search(r"FromMeta>::from_value\(.*\) as Ok\)\.0$", ctx.expr(f, lp[0]["t"]["args"][1])) is not None
                ok = ok and not ctx.find_calls_deep(f, r"::rev$|::next_back$|::rposition$|::reverse$", helpers=1)
                ctx.ob("C13.G.array-elements-in-order", f.key, "Expr::Array arm", ok, "%s" % [e[:160] for e in va])
            # everything else rejected, self-spanned
            fb = [e for k, d, e in A if k and "not-in" in k[0]]
            ok = len(fb) == 1 and fb[0] == "core::result::Result::Err{darling_core::error::Error::unexpected_expr_type(a1)}"
            ctx.ob("C13.G.other-expr-rejected", f.key, "fallback arm", ok, "%s" % [e[:140] for e in fb])
        own = ty
        syn_typed = ty.startswith("syn::") or ty in ("proc_macro2::Ident",)
        if "from_value" in i["items"] and syn_typed and not ty.startswith("syn::lit::") and ty != "syn::attr::Meta":
            f = ctx.fn("<%s as %s>::from_value" % (ty, FM))
            if f:
                n_val += 1
                # from_value as a case table: a string literal is parsed with the type's own grammar
                # (Ok → the parsed value, failure → the self-spanned unknown_lit_str_value), every
                # other literal kind is rejected with unexpected_lit_type(value)
                rows = resalg.raw_cases(ctx, f)
                s_, _ = ctx.sym(f)
                txt = [(sorted(resalg._atom(e, v, s_) for e, v in c), resalg.S.show(resalg.S.strip_transparent(v), s_)) for c, v in rows]
                PRX = r"syn::lit::LitStr::(parse|parse_with)\(\(a1 as Str\)\.0(, fn syn::punctuated::Punctuated::<T, P>::parse_terminated)?\)"
                ok_rows = [(c, v) for c, v in txt if "discr(a1)=Str" in c and any(re.match(r"^is_ok\(%s\)=True$" % PRX, a) for a in c)]
                bad_rows = [(c, v) for c, v in txt if "discr(a1)=Str" in c and any(re.match(r"^is_ok\(%s\)=False$" % PRX, a) for a in c)]
                other = [(c, v) for c, v in txt if "discr(a1)=Str" not in c]
                ok = len(ok_rows) == 1 and re.match(r"^core::result::Result::Ok\{\(%s as Ok\)\.0\}$" % PRX, ok_rows[0][1]) is not None and len(ok_rows) + len(bad_rows) + len(other) == len(txt)
                pcs = [resalg.find_call(v, n_) or next((resalg.find_call(e, n_) for e, _ in c if resalg.find_call(e, n_)), None) for c, v in rows for n_ in ("syn::lit::LitStr::parse", "syn::lit::LitStr::parse_with")]
                pcs = [x for x in pcs if x is not None]
                det = "type arguments %s" % sorted({tuple(x[3]) for x in pcs})
                if ok:
                    if any(x[1].endswith("::parse_with") for x in pcs):
                        ok = all(x[1].endswith("::parse_with") for x in pcs)
                    else:
                        ok = bool(pcs) and all(tuple(x[3]) == (ty,) for x in pcs)
                ctx.ob("C13.F.own-grammar", f.key, "LitStr::parse::<Self>", ok, det + "; rows %s" % [(c, v[:80]) for c, v in txt][:3])
                okr = len(other) >= 1 and all(v == "core::result::Result::Err{darling_core::error::Error::unexpected_lit_type(a1)}" and any(re.match(r"^discr\(a1\)=\('not-in', \('Str',\)\)$", a) or (re.match(r"^discr\(a1\)=\w+$", a) and a != "discr(a1)=Str") for a in c) for c, v in other)
                ctx.ob("C13.G.other-literal-kinds-rejected", f.key, "unexpected_lit_type(value)", okr, "%s" % other[:3])
                okb = len(bad_rows) == 1 and re.match(r"^core::result::Result::Err\{darling_core::error::Error::(unknown_lit_str_value\(\(a1 as Str\)\.0\)|with_span\(darling_core::error::Error::(new\(darling_core::error::kind::ErrorKind::UnknownValue\{syn::lit::LitStr::value\(\(a1 as Str\)\.0\)\}\)|unknown_value\(syn::lit::LitStr::value\(\(a1 as Str\)\.0\)\)), \(a1 as Str\)\.0\))\}$", bad_rows[0][1]) is not None
                ctx.ob("C13.G.parse-failure-spanned", f.key, "map_err(|_| unknown_lit_str_value(v))", okb, "%s" % [v[:200] for c, v in bad_rows])
        if "from_string" in i["items"] and syn_typed:
            f = ctx.fn("<%s as %s>::from_string" % (ty, FM))
            if f:
                n_str += 1
                ps = ctx.find_calls(f, r"^syn::parse_str$")
                ok = len(ps) == 1 and (mir.callee_info(ps[0][1]).get("targs") or []) == [ty] and ctx.expr(f, ps[0][1]["args"][0]) == "a1"
                ctx.ob("C13.F.own-grammar", f.key, "syn::parse_str::<Self>(value)", ok, "%s" % [(mir.callee_info(t).get("targs"), ctx.expr(f, t["args"][0])) for _, t in ps])
    ctx.floor("C13.from_expr", "from_expr overrides", n_expr, 22)
    ctx.floor("C13.from_value", "from_value overrides of syn types", n_val, 24)
    ctx.floor("C13.from_string", "from_string overrides of syn types", n_str, 20)
    # literal kinds: clone of the matching variant
    n_lit = 0
    for i in impls:
        ty = i["self"]
        if (ty.startswith("syn::lit::Lit") or ty == "proc_macro2::Literal") and "from_value" in i["items"]:
            f = ctx.fn("<%s as %s>::from_value" % (ty, FM))
            if not f:
                continue
            n_lit += 1
            A = arms(ctx, f)
            if ty == "syn::lit::Lit":
                rs = [e for _, _, e in A]
                ctx.ob("C13.G.literal-cloned", f.key, "Ok(value.clone())", len(rs) == 1 and re.match(r"^core::result::Result::Ok\{.*clone\(a1\)\}$", rs[0]) is not None, "%s" % rs)
                continue
            oks = [(k, e) for k, d, e in A if e.startswith("core::result::Result::Ok{")]
            errs = [(k, e) for k, d, e in A if e.startswith("core::result::Result::Err{")]
            want = {"syn::lit::LitInt": "Int", "syn::lit::LitFloat": "Float", "syn::lit::LitStr": "Str", "syn::lit::LitByte": "Byte", "syn::lit::LitByteStr": "ByteStr",
                    "syn::lit::LitChar": "Char", "syn::lit::LitBool": "Bool", "proc_macro2::Literal": "Verbatim"}[ty]
            ok = len(oks) == 1 and oks[0][0] == ["discr(a1)=%s" % want] and re.search(r"clone\(\(a1 as %s\)\.0\)" % want, oks[0][1]) is not None
            ctx.ob("C13.G.literal-cloned", f.key, "Lit::%s => Ok(value.clone())" % want, ok, "%s" % oks)
            ok = len(errs) == 1 and errs[0][1] == "core::result::Result::Err{darling_core::error::Error::unexpected_lit_type(a1)}"
            ctx.ob("C13.G.other-literal-kinds-rejected", f.key, "unexpected_lit_type(value)", ok, "%s" % errs)
    ctx.floor("C13.literals", "literal-kind impls", n_lit, 9)
    # whole meta items
    f = ctx.fn("<syn::attr::Meta as %s>::from_meta" % FM)
    if f:
        rs = ctx.ret_values(f)
        ctx.ob("C13.G.meta-cloned", f.key, "Ok(value.clone())", len(rs) == 1 and re.match(r"^core::result::Result::Ok\{.*clone\(a1\)\}$", rs[0]) is not None, "%s" % rs)
    # the two expression helpers
    P = "darling_core::util::parse_expr::"
    a, b = ctx.fn(P + "preserve_str_literal"), ctx.fn(P + "parse_str_literal")
    if a and b:
        Aa, Ab = arms(ctx, a), arms(ctx, b)
        nv_a = [e for k, d, e in Aa if k == ["discr(a1)=NameValue"]]
        ok = len(nv_a) == 1 and re.match(r"^core::result::Result::Ok\{.*clone\(\(a1 as NameValue\)\.0\.value\)\}$", nv_a[0]) is not None
        ctx.ob("C13.G.preserve-keeps-expression", a.key, "NameValue => Ok(nv.value.clone())", ok, "%s" % nv_a)
        nv_b = [(d, e) for k, d, e in Ab if k == ["discr(a1)=NameValue"]]
        lit = [e for d, e in nv_b if "discr((a1 as NameValue).0.value)=Lit" in d]
        oth = [e for d, e in nv_b if "discr((a1 as NameValue).0.value)=Lit" not in d]
        ok = len(lit) == 1 and lit[0].startswith("<syn::expr::Expr as %s>::from_value(" % FM) and len(oth) == 1 and oth[0] == (nv_a[0] if nv_a else None)
        ctx.ob("C13.S.helpers-differ-only-on-literals", b.key, "parse_str_literal vs preserve_str_literal", ok, "literal edge %s; other edge %s" % (lit, oth))
        for name, A in (("preserve", Aa), ("parse", Ab)):
            rej = [(k, e) for k, d, e in A if k in (["discr(a1)=Path"], ["discr(a1)=List"])]
            ok = len(rej) == 2 and all(e.startswith("core::result::Result::Err{darling_core::error::Error::with_span(darling_core::error::Error::unsupported_format(") for k, e in rej)
            ctx.ob("C13.G.helpers-reject-other-forms", (a if name == "preserve" else b).key, "Path/List => spanned error", ok, "%s" % rej)
    # where-predicates: "the contents of the string re-parsed by the same grammar" – the list is read as
    # the body of a where-clause (empty list and trailing comma included), i.e. through WhereClause's
    # own conversion or syn's WhereClause parser, never through a hand-picked Punctuated parser
    for h in ("from_string", "from_value"):
        f = ctx.fn("<alloc::vec::Vec<syn::generics::WherePredicate> as %s>::%s" % (FM, h), required=False)
        if f:
            via = ctx.find_calls_deep(f, r"^<syn::generics::WhereClause as darling_core::from_meta::FromMeta>::(from_string|from_value)$", helpers=1)
            direct = [t for _, t, o in ctx.find_calls_deep(f, r"^syn::parse_str$|^syn::lit::LitStr::parse$|^syn::parse::Parser::parse_str$|Parser>::parse_str$|^syn::lit::LitStr::parse_with$", helpers=1)]
            direct_ok = all((mir.callee_info(t).get("targs") or [""])[0] == "syn::generics::WhereClause" for t in direct)
            ctx.ob("C13.F.where-predicates-through-where-clause", f.key, "parsed as the body of a where-clause", (len(via) == 1 and not direct) or (not via and len(direct) == 1 and direct_ok),
                   "%d delegations to WhereClause, other parser calls: %s" % (len(via), [(mir.callee_of(t), mir.callee_info(t).get("targs")) for t in direct]))
            wh = [ctx.expr(o, a) for _, t, o in ctx.find_calls_deep(f, r"fmt::Arguments::<'_>::new", helpers=1) for a in t["args"][:1]]
            ctx.ob("C13.F.where-predicates-through-where-clause", f.key, "`where ` prefix", any("where " in x for x in wh) or (not via and direct_ok and bool(direct)), "format pieces %s" % wh)
    # path lists and whole meta items in list position are read by NestedMeta's grammar: `::a::b`
    # must reach the item parser (necessary for "leading ::" of the property's grammar)
    from .C15 import item_grammar_rules
    item_grammar_rules(ctx, "C13.items")
    # PathList: words only, in order
    f = ctx.fn("<darling_core::util::path_list::PathList as %s>::from_list" % FM)
    if f:
        # the element kept for a word item: pushed in a loop, or the Ok value of a per-item closure
        kept = [ctx.expr(f, t["args"][1]) for _, t in ctx.find_calls(f, r"^alloc::vec::Vec::<T, A>::push$")]
        for c in ctx.closures_of(f):
            for conds, v in resalg.cases(ctx, c):
                m = re.match(r"^core::result::Result::Ok\{(.*)\}$", v)
                if m:
                    kept.append(m.group(1))
        ok = len(kept) == 1 and re.search(r"clone\(.*as Path\)\.0\)$", kept[0]) is not None
        ctx.ob("C13.G.path-list-clones-words", f.key, "paths.push(path.clone())", ok, "%s" % [k[:160] for k in kept])
        errs = ctx.find_calls_deep(f, r"^darling_core::error::Error::unexpected_type$")
        ctx.ob("C13.G.path-list-rejects-non-words", f.key, "non-word item => error", len(errs) == 1, "%d" % len(errs))
    return ctx.finish(
        explanation="Sibling agreement over %d from_expr, %d from_value and %d from_string overrides of syntax-valued types, %d literal kinds, the expression helpers and PathList." % (n_expr, n_val, n_str, n_lit),
        assumptions=["syn's parsers and Clone impls reproduce tokens faithfully (trusted base)"],
    )

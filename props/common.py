"""Rule families shared by several properties (DESIGN.md 2.3: T, D, C, E) and their frozen
instance tables (Appendix A.1).  Every row carries one line of reason."""
import re

from vlib import mir, scan

CORE = "darling_core::"
IGNORED_ASSERTS = ("assert-MisalignedPointerDereference", "assert-NullPointerDereference")

TOK = r"<darling_core::codegen::%s as quote::to_tokens::ToTokens>::to_tokens"


def _tp(name, which):
    return "<darling_core::codegen::%s as darling_core::codegen::outer_from_impl::OuterFromImpl<'a>>::%s" % (name, which)


# (function key, kind) -> row
#   max     : number of sites of that kind confirmed by reading
#   guard   : list of atom regexes every path to every such site must satisfy (intraprocedural G)
#   const   : the site's input must be a compile-time constant (Ident::new / parse_quote!)
#   who     : interprocedural disposition checked by a named rule in the property module
#   finding : defect id (reported; suppressed only through known_findings.json)
#   scope   : 'derive' | 'runtime' | 'both'  (which totality property owns the site)
PANIC_TABLE = {
    ("darling_core::ast::data::Data::<V, F>::empty_from", "panic"): dict(
        max=1, scope="runtime", who="no-caller", why="documented `# Panics` API; rule who-calls: no caller outside tests"),
    (TOK % "attrs_field::MatchArms<'_>", "option-unwrap"): dict(
        max=1, scope="derive", guard=[r"will_forward_any\(self\.0\)=True"],
        why="filter.expect() dominated by will_forward_any()=true; will_forward_any is true only under filter=Some (rule C06.G.will_forward_any)"),
    (TOK % "default_expr::DefaultExpression<'_>", "ident-new"): dict(max=1, scope="derive", const=True, why="Ident::new on a constant valid identifier"),
    (TOK % "default_expr::DefaultDeclaration<'_>", "ident-new"): dict(max=1, scope="derive", const=True, why="Ident::new on a constant valid identifier"),
    (TOK % "from_meta_impl::FromMetaImpl<'_>", "panic"): dict(
        max=1, scope="derive", finding="F2", why="multi-field tuple struct deriving FromMeta reaches panic!"),
    (TOK % "variant::DataMatchArm<'_>", "panic"): dict(
        max=1, scope="derive", finding="F2", why="tuple variant with more than one field reaches panic!"),
    (TOK % "variant::UnitMatchArm<'_>", "option-unwrap"): dict(
        max=1, scope="derive", guard=[r"is_newtype\(self\.0\.data\)=True"], why="fields.first().expect() dominated by is_newtype()=true"),
    ("darling_core::codegen::trait_impl::TraitImpl::<'a>::make_field_ctx", "panic"): dict(
        max=1, scope="derive", finding="F3", guard=[r"discr\(self\.data\)=Enum"],
        why="element-level derive on an enum body without variants reaches codegen (no variant => no error)"),
    ("darling_core::codegen::variant_data::FieldsGen::<'a>::declarations", "panic"): dict(
        max=1, scope="derive", who="fieldsgen-struct-only", guard=[("ne", r"^discr\(self\.fields\.style\)$", "Struct")],
        why="only called from DataMatchArm::to_tokens under is_struct()=true (rule C06.who.fieldsgen)"),
    ("darling_core::codegen::variant_data::FieldsGen::<'a>::require_fields", "panic"): dict(
        max=1, scope="derive", who="fieldsgen-struct-only", guard=[("ne", r"^discr\(self\.fields\.style\)$", "Struct")],
        why="only called from DataMatchArm::to_tokens under is_struct()=true (rule C06.who.fieldsgen)"),
    ("darling_core::error::kind::ErrorKind::description", "panic"): dict(
        max=1, scope="runtime", who="nonexhaustive-never-built", guard=[r"discr\(self\)=__NonExhaustive"], why="variant __NonExhaustive is never constructed"),
    ("<darling_core::error::kind::ErrorKind as core::fmt::Display>::fmt", "panic"): dict(
        max=1, scope="runtime", who="nonexhaustive-never-built", guard=[r"discr\(self\)=__NonExhaustive"], why="variant __NonExhaustive is never constructed"),
    ("<darling_core::error::kind::ErrorKind as core::fmt::Display>::fmt", "index"): dict(
        max=1, scope="runtime", guard=[r"^len\(\(self as Multiple\)\.0\)=1$"], why="items[0] under items.len() == 1"),
    ("darling_core::error::kind::did_you_mean", "option-unwrap"): dict(
        max=1, scope="runtime", guard=[r"is_some\(_\d+\)=True"], why="candidate.unwrap() on the is_none()=false edge of the ||"),
    ("darling_core::error::Error::multiple", "option-unwrap"): dict(max=1, scope="runtime", guard=[r"len\(a1\)=1$"], why="pop().expect() under len == 1"),
    ("darling_core::error::Error::multiple", "panic"): dict(
        max=1, scope="runtime", who="multiple-nonempty", guard=[r"len\(a1\)=0$"],
        why="documented; callers finish_with (under !is_empty) and flatten (into_vec is non-empty by construction)"),
    ("darling_core::error::Error::at", "vec-index-op"): dict(max=1, scope="runtime", who="insert-at-zero", why="Vec::insert at constant index 0 never panics"),
    ("darling_core::error::<impl core::convert::From<darling_core::error::Error> for syn::error::Error>::from", "option-unwrap"): dict(
        max=1, scope="runtime", who="multiple-nonempty", why="first flattened leaf; flatten() is non-empty by construction of into_vec"),
    ("darling_core::error::Accumulator::errors", "panic"): dict(
        max=1, scope="runtime", guard=[r"is_some\(self\.0\)=False"], who="take-only-in-into-inner", why="Option::take only in into_inner(self)"),
    ("darling_core::error::Accumulator::into_inner", "panic"): dict(
        max=1, scope="runtime", guard=[r"^is_some\(self\.0\)=False$"], who="take-only-in-into-inner", why="Option::take only in into_inner(self)"),
    ("<darling_core::error::Accumulator as core::ops::drop::Drop>::drop", "panic"): dict(
        max=2, scope="runtime", guard=[r"panicking\(\)=False", r"is_some\(self\.0\)=True"], why="the drop bomb itself; subject of the T rule"),
    ("<proc_macro2::Ident as darling_core::from_meta::KeyFromPath>::from_path", "index"): dict(
        max=2, scope="runtime", guard=[r"^len\(a1\.segments\)=1$"], why="segments[0] under segments.len() == 1"),
    ("darling_core::options::core::Core::as_codegen_default::{closure#0}", "panic"): dict(
        max=1, scope="derive", who="inherit-only-in-field", guard=[r"discr\(a2\)=Inherit"],
        why="DefaultExpression::Inherit is constructed only in InputField::with_inherited"),
    ("<darling_core::options::core::Core as darling_core::options::ParseAttribute>::parse_nested", "option-unwrap"): dict(
        max=1, scope="derive", guard=[r'is_ident\(.*, "(map|and_then)"\)=True'], why="get_ident().unwrap() after is_ident(..)=true"),
    ("<darling_core::options::input_field::InputField as darling_core::options::ParseAttribute>::parse_nested", "option-unwrap"): dict(
        max=1, scope="derive", guard=[r'is_ident\(.*, "(map|and_then)"\)=True'], why="get_ident().unwrap() after is_ident(..)=true"),
    ("<darling_core::options::core::Core as darling_core::options::ParseData>::parse_variant", "panic"): dict(
        max=1, scope="derive", who="parse-body-dispatch", guard=[r"discr\(self\.data\)=Struct"],
        why="parse_body dispatches on the same di.data that Core::start mirrored into self.data"),
    ("<darling_core::options::core::Core as darling_core::options::ParseData>::parse_field", "panic"): dict(
        max=2, scope="derive", who="parse-body-dispatch", alt_guards=[[r"discr\(self\.data\)=Enum"], [r"discr\(\(self\.data as Struct\)\.0\.style\)=Unit"]],
        why="parse_body dispatches on the same di.data that Core::start mirrored into self.data"),
    ("darling_core::options::ParseData::parse_body", "panic"): dict(
        max=1, scope="derive", who="union-rejected-first", guard=[r"discr\(a2\)=Union"],
        why="every …Options::new calls Core::start(di)? first and try_empty_from returns Err on a union"),
    ("darling_core::options::from_meta::FromMetaOptions::from_word::{closure#0}", "parse-quote"): dict(
        max=1, scope="derive", who="parse-quote-ident-only", why="parse_quote!(|| Ok(Self::#ident)) – the only interpolation is an Ident, the expression always parses"),
    ("darling_core::options::input_field::InputField::as_codegen_field::{closure#2}", "parse-quote"): dict(max=1, scope="derive", const=True, why="constant path"),
    ("darling_core::options::input_field::InputField::from_field::{closure#0}", "ident-new"): dict(max=1, scope="derive", const=True, why="constant identifier"),
    ("<darling_core::options::shape::DeriveInputShapeSet as darling_core::from_meta::FromMeta>::from_list", "option-unwrap"): dict(
        max=1, scope="derive", who="syn-path-nonempty", why="trusted syn invariant: a parsed Path has at least one segment"),
    ("<darling_core::options::shape::DataShape as darling_core::from_meta::FromMeta>::from_list", "option-unwrap"): dict(
        max=1, scope="derive", who="syn-path-nonempty", why="trusted syn invariant: a parsed Path has at least one segment"),
    ("<darling_core::options::shape::DataShape as quote::to_tokens::ToTokens>::to_tokens", "parse-quote"): dict(max=1, scope="derive", const=True, why="constant path"),
    ("darling_core::options::ParseAttribute::parse_attributes", "parse-quote"): dict(max=1, scope="derive", const=True, why="constant path `darling`"),
    ("<syn::path::Path as darling_core::usage::type_params::UsesTypeParams>::uses_type_params", "index"): dict(
        max=1, scope="both", guard=[("ne", r"^len\(self\.segments\)$", 0)], why="segments[0] under !segments.is_empty()"),
    ("<darling_core::util::flag::Flag as darling_core::from_meta::FromMeta>::from_meta", "result-unwrap"): dict(
        max=1, scope="both", who="unit-overrides-only-from-word", guard=[("ne", r"^discr\(a1\)$", "Path")],
        why="<()>::from_meta(non-path) is an Err because () overrides only from_word"),
    ("darling_core::util::ident_string::IdentString::map", "ident-new"): dict(
        max=1, scope="runtime", who="no-caller", why="documented `# Panics` API; not reachable from derives or generated code"),
    ("<darling_core::util::shape::ShapeSet as core::fmt::Display>::fmt", "panic"): dict(
        max=1, scope="runtime", who="to-vec-three", guard=[("ne", r"^len\(.*to_vec\(self\)\)$", n_) for n_ in (0, 1, 2, 3)], why="to_vec has at most four loop-free pushes... see C18"),
    ("<darling_core::util::shape::ShapeSet as core::fmt::Display>::fmt", "index"): dict(
        max=6, scope="runtime", who="index-below-len", why="shapes[i] in the arm `len == n` with i < n (rule C07.index-below-len)"),
}
for _n in ("from_attributes_impl::FromAttributesImpl<'a>", "from_derive_impl::FromDeriveInputImpl<'a>", "from_field::FromFieldImpl<'a>",
           "from_type_param::FromTypeParamImpl<'a>", "from_variant_impl::FromVariantImpl<'a>"):
    PANIC_TABLE[(_tp(_n, "trait_path"), "parse-quote")] = dict(max=1, scope="derive", const=True, why="constant path")
    PANIC_TABLE[(_tp(_n, "trait_bound"), "parse-quote")] = dict(max=1, scope="derive", const=True, why="constant path")
PANIC_TABLE[(_tp("from_meta_impl::FromMetaImpl<'a>", "trait_path"), "parse-quote")] = dict(max=1, scope="derive", const=True, why="constant path")

for _m, _t in (("lifetimes::UsesLifetimes>::uses_lifetimes", "lifetimes"), ("type_params::UsesTypeParams>::uses_type_params", "type_params")):
    for _ty in ("syn::ty::Type", "syn::generics::WherePredicate", "syn::path::GenericArgument"):
        PANIC_TABLE[("<%s as darling_core::usage::%s" % (_ty, _m), "panic")] = dict(
            max=1, scope="both", exhaustive=True, why="wildcard arm of a match that lists every variant of the (non_exhaustive) syn enum: dead today (rule E)")
    PANIC_TABLE[("<syn::generics::TypeParamBound as darling_core::usage::%s" % _m, "panic")] = dict(
        max=1, scope="both", exhaustive=True, finding="F4", why="TypeParamBound::{PreciseCapture, Verbatim} reach the wildcard panic")


def derive_file(b):
    f = b.file
    return "/options/" in f or "/codegen/" in f or f.endswith("derive.rs") or "/usage/" in f or f.endswith("macros_private.rs")


def owner_key(key):
    """table rows name a function; a site in one of its closures (at any depth, whatever its
    number) belongs to the same row"""
    return re.sub(r"(::\{closure#\d+\})+$", "", key)


PANIC_TABLE = {(owner_key(fn), kind): row for (fn, kind), row in PANIC_TABLE.items()}


def census_sites(ctx, bodies):
    """(body, blk, kind, detail) for every panic-capable site of `bodies` (asserts added by debug
    pointer checks and full-range indexing excluded)."""
    out = []
    # a private `fn x() -> !` that only panics is the panic of each of its callers (factoring a
    # panic message into a helper does not move the obligation away from the guarded call sites)
    diverging = {}
    for b in bodies:
        if b.kind in ("Fn", "AssocFn") and b.local_ty(0) == "!" and str(b.raw.get("vis", "")).startswith("Restricted"):
            diverging[b.key] = b
    called = set()
    for b in bodies:
        for blk, t in b.calls():
            c = mir.callee_of(t)
            if c in diverging and b.key != c:
                called.add(c)
                out.append((b, blk, "panic", "%s (diverging helper)" % c))
    for b in bodies:
        if b.key in called:
            continue
        for blk, kind, detail in scan.panic_sites(b):
            if kind.startswith(IGNORED_ASSERTS):
                continue
            if kind == "index":
                ci = mir.callee_info(b.term(blk))
                if ci and "RangeFull" in (ci.get("resolved_with_args") or ci.get("fn_with_args") or ""):
                    continue
            out.append((b, blk, kind, detail))
    return out


def const_input(ctx, b, blk, kind):
    """Ident::new(const str) / parse_quote!(constant tokens)."""
    t = b.term(blk)
    if kind == "ident-new":
        a0 = t["args"][0]
        e = ctx.expr(b, a0)
        if a0["k"] == "const":
            return True, e
        return (e.startswith('"') or "DEFAULT_STRUCT_NAME" in e or bool(re.match(r"^[A-Za-z_:0-9]+$", e)) and e.isupper() is False and "::" in e), e
    if kind == "parse-quote":
        # the token stream handed to parse() must be built from constant pushes only
        from vlib import tpl
        root = tpl.value_root(b, t["args"][0])
        if root is None:
            return False, "token stream operand is not a plain local"
        n = 0
        for _, t2 in b.calls():
            ci = mir.callee_info(t2)
            if not ci:
                continue
            name = ci.get("resolved") or ci["fn"]
            for a in t2["args"]:
                if a["k"] in ("copy", "move") and b.local_ty(a["p"]["local"]).startswith("&mut ") and tpl.ref_root(b, a) == root:
                    n += 1
                    if not name.startswith("quote::__private::push_") and not name.startswith("quote::__private::parse"):
                        return False, "non-constant token source " + (ci.get("resolved_with_args") or name)
        return n > 0, "%d constant pushes" % n
    return False, "?"


def counts_objects(ctx, b, blk):
    """the checked addition of this block adds a `len()` of a collection to a usize accumulator"""
    for b2, i, st in b.stmts():
        if b2 == blk and st["k"] == "assign" and st["r"]["k"] == "binop" and st["r"].get("op") == "AddWithOverflow" and st["p"]["ty"].startswith("(usize"):
            es = [ctx.expr(b, st["r"]["a"]), ctx.expr(b, st["r"]["b"])]
            return any(re.match(r"^(len\(|[\w:<>, ']*::len\()", e) for e in es)
    return False


def panic_census(ctx, rule, bodies, scope):
    """Rule C: every panic-capable site of `bodies` matches a row of PANIC_TABLE owned by `scope`
    and satisfies the row's guard.  Returns the list of sites."""
    sites = census_sites(ctx, bodies)
    counts = {}
    for b, blk, kind, detail in sites:
        # a site in a private helper with one call site belongs to the function it was cut out of
        # (the row and its guard name that function; the path condition is imported by pc_strs)
        home = b
        for _ in range(2):
            up = ctx.caller_of(home) if home.kind in ("Fn", "AssocFn") else None
            if up is None or (owner_key(home.key), kind) in PANIC_TABLE:
                break
            home = up
        counts.setdefault((owner_key(home.key), kind), []).append((b, blk, detail))
    for (fn, kind), lst in sorted(counts.items()):
        row = PANIC_TABLE.get((fn, kind))
        if row is None:
            for b, blk, detail in lst:
                # Ident::new / parse_quote! on a compile-time constant cannot fail at run time,
                # wherever the call is placed (a helper extracted from a generator needs no row)
                if kind in ("ident-new", "parse-quote"):
                    ok, what = const_input(ctx, b, blk, kind)
                    if ok:
                        ctx.ob(rule + ".const-input", fn, kind, True, "constant input: %s" % what)
                        continue
                if kind == "overflow-assert" and counts_objects(ctx, b, blk):
                    ctx.ob(rule + ".object-count", fn, kind, True, "usize sum of lengths of in-memory collections (what `.iter().map(len).sum()` computes): bounded by the address space")
                    continue
                ctx.ob(rule + ".unlisted", fn, "%s %s" % (kind, detail), False,
                       "panic-capable construct without a table row; path condition: %s" % (ctx.pc_strs(b, blk),))
            continue
        if row["scope"] not in (scope, "both"):
            continue
        if len(lst) > row["max"]:
            ctx.ob(rule + ".count", fn, "%s#extra" % kind, False, "%d sites of kind %s, table allows %d" % (len(lst), kind, row["max"]))
        if row.get("finding"):
            ctx.ob(rule + ".reachable-panic", fn, kind, False, "%s: %s" % (row["finding"], row["why"]))
            # guards of a finding row are still informative but not enforced
            continue
        for b, blk, detail in lst:
            if row.get("const"):
                ok, what = const_input(ctx, b, blk, kind)
                ctx.ob(rule + ".const-input", fn, kind, ok, "%s: %s" % (row["why"], what))
            if row.get("guard"):
                ctx.requires(rule + ".guard", b, blk, kind, row["guard"])
            elif row.get("alt_guards"):
                ctx.requires(rule + ".guard", b, blk, kind, row["alt_guards"][0], alt=row["alt_guards"][1:])
            elif not row.get("const"):
                ctx.ob(rule + ".row", fn, kind, True, row["why"])
    return sites


def exhaustive_wildcards(ctx, rule, bodies):
    """Rule E: a switch on an enum discriminant whose otherwise edge reaches a panic must list every
    variant; missing variants are named."""
    n = 0
    for b in bodies:
        for blk in sorted(b.normal_blocks()):
            sv = scan.switch_variants(b, blk)
            if not sv:
                continue
            adt, allv, m, other, r = sv
            kind = scan.reaches_panic(b, other)
            if kind != "panic":
                continue
            row = PANIC_TABLE.get((owner_key(b.key), "panic"), {})
            if row and not row.get("exhaustive"):
                continue  # guarded by a who-calls rule or already reported by the census
            n += 1
            missing = [v for v in allv if v not in m]
            ev = "wildcard-panic %s" % adt
            if missing and row.get("finding"):
                ctx.ob(rule, b.key, ev, False, "%s: variants %s of %s reach the wildcard panic" % (row["finding"], missing, adt))
            else:
                ctx.ob(rule, b.key, ev, not missing, "variants %s of %s reach the wildcard panic" % (missing, adt))
    return n


def acc_typestate(ctx, rule, bodies, allow=("darling_core::error::Accumulator::into_inner",)):
    """Rule T: no accumulator is dropped alive on a non-unwinding path (this covers `?` and early
    returns while one is live: ownership makes rustc insert the Drop on exactly those paths)."""
    n = 0
    for b in bodies:
        uses = any(scan.ACC in l["ty"]["s"] for l in b.locals)
        if not uses:
            continue
        n += 1
        drops = scan.live_drops(b, scan.ACC) + scan.mem_drops(b, scan.ACC)
        if b.key in allow:
            ctx.ob(rule + ".allow", b.key, "drop Accumulator", len(drops) <= 1, "into_inner drops self after take(); Drop is a no-op on None")
            continue
        if drops:
            for blk, t in drops:
                ctx.ob(rule, b.key, "drop Accumulator", False,
                       "live accumulator dropped on a normal path at bb%d (line %s); path condition %s" % (blk, t.get("line"), ctx.pc_strs(b, blk)))
        else:
            ctx.ob(rule, b.key, "drop Accumulator", True, "no live drop")
    return n


ERROR_DROP_TABLE = {
    ("darling_core::error::Error::multiple", "alloc::vec::Vec<darling_core::error::Error>"): "the vector after pop() of its only element / the empty vector before panic",
    ("darling_core::error::Accumulator::finish_with", "alloc::vec::Vec<darling_core::error::Error>"): "the empty vector on the Ok path (is_empty()=true)",
    ("darling_core::error::<impl core::convert::From<darling_core::error::Error> for syn::error::Error>::from", "core::iter::adapters::map::Map<darling_core::error::IntoIter"): "the exhausted iterator after the combine loop",
    # rows name a function; its closures are covered by the same row
    ("<core::result::Result<T, syn::attr::Meta> as darling_core::from_meta::FromMeta>::from_meta", "darling_core::error::Error"): "Result<T, Meta> deliberately replaces the error by the original item (C12)",
    ("<core::result::Result<T, syn::attr::Meta> as darling_core::from_meta::FromMeta>::from_meta", "core::result::Result<T, darling_core::error::Error>"): "Result<T, Meta> deliberately replaces the error by the original item (C12)",
}


def _row_fn(row_fn, key):
    return key == row_fn or key.startswith(row_fn + "::{closure")


DISCARDING = re.compile(r"^core::result::Result::<T, E>::(ok|unwrap_or|unwrap_or_else|unwrap_or_default|is_ok|is_err|or|or_else|map_or|map_or_else|iter)$")
DISCARD_TABLE = {
    ("<core::result::Result<T, syn::attr::Meta> as darling_core::from_meta::FromMeta>::from_meta", "*"): "Result<T, Meta> deliberately replaces the error by the original item (C12)",
    ("<darling_core::util::flag::Flag as darling_core::from_meta::FromMeta>::from_meta", "core::result::Result::<T, E>::unwrap_err"): "extracts the error of <()>::from_meta to return it (not discarded)",
}


def taken_before(ctx, b, blk, t):
    """drop-and-replace of a place whose content was moved out with mem::take / Option::take in a
    block that dominates the drop, with no other `&mut` use of the place in the function"""
    place = ctx.expr(b, t["p"])
    takes, others = [], 0
    for b2, t2 in b.calls():
        for i, a in enumerate(t2["args"]):
            if a["k"] in ("copy", "move") and str(a["p"].get("ty", "")).startswith("&mut ") and ctx.expr(b, a) == place:
                if i == 0 and re.search(r"^core::mem::take$|^core::option::Option::<T>::take$", mir.callee_of(t2) or ""):
                    takes.append(b2)
                else:
                    others += 1
    if len(takes) != 1 or others or not b.dominates(takes[0], blk):
        return False
    # the drop is the first half of an assignment to the same place
    tgt = t.get("target")
    return tgt is not None and any(b3 == tgt and st["k"] == "assign" and ctx.expr(b, st["p"]) == place for b3, i, st in b.stmts())


def error_discipline(ctx, rule, bodies):
    """Rule D: closed census of (a) live drops of Error-carrying values, (b) error-discarding
    adapters applied to Result<_, darling Error>."""
    n = 0
    for b in bodies:
        for blk, t in scan.live_drops(b, scan.ERR):
            ty = t["ty"]["s"]
            if "darling_core::error::Accumulator" in ty:
                continue
            n += 1
            key = None
            for (fn, typ), why in ERROR_DROP_TABLE.items():
                if _row_fn(fn, b.key) and ty.startswith(typ):
                    key = (fn, typ)
            if key is None and re.search(r"(::into_iter::IntoIter<|::iter::adapters::)", ty):
                # an iterator over errors dropped where its `next()` has just returned None is empty
                pcs = ctx.pc_strs(b, blk)
                if pcs and all(ctx._sat(d, r"^is_some\(.*Iterator(>)?::next\(.*\)\)=False$") for d in pcs):
                    ctx.ob(rule + ".drop", b.key, "drop " + ty[:80], True, "exhausted iterator (dropped on the edge where next() returned None)")
                    continue
            if key is None and ty.startswith("alloc::vec::Vec<"):
                # a vector known to be empty where it is dropped carries no error
                place = ctx.expr(b, t["p"])
                pcs = ctx.pc_strs(b, blk)

                def moved_on(d):
                    # the value was handed to a call on the path described by d (the drop at the join is
                    # then guarded by a drop flag and does nothing)
                    for b2, t2 in b.calls():
                        if b2 == blk or blk not in b.reachable(b2, False):
                            continue
                        if any(a_["k"] == "move" and not a_["p"]["proj"] and ctx.expr(b, a_) == place for a_ in t2["args"]):
                            if any(set(d2) <= set(d) for d2 in (ctx.pc_strs(b, b2) or [set()])):
                                return True
                    return False
                if pcs and all(("len(%s)=0" % place) in d or moved_on(d) for d in pcs) and any(("len(%s)=0" % place) in d for d in pcs):
                    ctx.ob(rule + ".drop", b.key, "drop " + ty[:80], True, "the vector is empty on the paths where it is still owned (len = 0); on the others it was moved into a call")
                    continue
            if key is None and taken_before(ctx, b, blk, t):
                ctx.ob(rule + ".drop", b.key, "drop " + ty[:80], True, "the place was emptied by mem::take / Option::take and is only now overwritten")
                continue
            ctx.ob(rule + ".drop", b.key, "drop " + ty[:80], key is not None,
                   "a value that may carry darling errors is dropped on a normal path (bb%d); table rows: %d" % (blk, len(ERROR_DROP_TABLE)))
        for blk, t in b.calls():
            ci = mir.callee_info(t)
            if not ci:
                continue
            name = ci.get("resolved") or ci["fn"]
            # an Error used as an iterator yields the children of a bundle: `errors.extend(err.at(x))` records
            # them without the location / span that was attached to the bundle
            if re.search(r"Extend<darling_core::error::Error>>::extend$", name) and (ci.get("targs") or [None, None, None])[-1] == "darling_core::error::Error":
                n += 1
                ctx.ob(rule + ".discard", b.key, name, False, "a single darling::Error is handed to extend(): a bundle is split into its children and what was attached to it (location, span) is lost; push it instead")
                continue
            # a Result used as an iterator yields its Ok value and drops its Err: `flat_map(|x| fallible(x))`,
            # `.flatten()` over Results, `result.into_iter()`
            targs_ = " ".join(str(x) for x in (ci.get("targs") or []))
            if re.search(r"Iterator(>)?::(flat_map|flatten)$|^<core::result::Result<.*> as core::iter::traits::collect::IntoIterator>::into_iter$|^core::result::Result::<T, E>::(iter|iter_mut)$", name) \
                    and re.search(r"core::result::Result<[^{}]*darling_core::error::Error>", targs_ + " " + str(ci.get("self_ty") or "")):
                n += 1
                ctx.ob(rule + ".discard", b.key, name, False, "a Result<_, darling::Error> is used as an iterator here: its error is dropped silently (%s)" % targs_[:160])
                continue
            if DISCARDING.match(name) and any(a == scan.ERR for a in ci.get("targs", [])[1:2]):
                # `r.map_or_else(Error::write_errors, ..)` / `r.unwrap_or_else(handler_fn)`: the error is
                # handed to a named function, not thrown away
                if name.endswith(("::map_or_else", "::unwrap_or_else", "::or_else")) and len(t["args"]) >= 2:
                    s_, _ = ctx.sym(b)
                    a1 = s_.operand(t["args"][1])
                    if a1[0] == "fnptr":
                        continue
                n += 1
                ok = any(_row_fn(fn, b.key) and nm in ("*", name) for (fn, nm) in DISCARD_TABLE)
                ctx.ob(rule + ".discard", b.key, name, ok, "error-discarding adapter on Result<_, darling::Error>")
    return n


def unit_rejects_non_words(ctx, rule, core):
    """`Flag::from_meta` unwrap_err()s the result of `<()>::from_meta(non-path)`: sound only while `()`
    overrides nothing but from_word (every other form then falls to a rejecting default hook)."""
    unit = [i for i in core["impls"] if i["trait"] == "darling_core::from_meta::FromMeta" and i["self"] == "()"]
    ctx.ob(rule, "<() as FromMeta>", "overridden hooks", len(unit) == 1 and unit[0]["items"] == ["from_word"],
           "`()` overrides %s; Flag::from_meta (used by the derive-time `flatten` option and by Flag fields) calls unwrap_err() on <()>::from_meta for every non-path item" % [u["items"] for u in unit])


def consistent(d):
    """a conjunction of atom strings without an obvious contradiction (one expression with two
    different values, a value and its exclusion)"""
    seen_ = {}
    for a_ in d:
        l, _, r = a_.rpartition("=")
        if r.startswith("('not-in'"):
            continue
        if l in seen_ and seen_[l] != r:
            return False
        seen_[l] = r
    for a_ in d:
        l, _, r = a_.rpartition("=")
        if r.startswith("('not-in'") and l in seen_ and (("'%s'" % seen_[l]) in r or re.search(r"[(, ]%s[,)]" % re.escape(seen_[l]), r)):
            return False
    return True


def callable_args_conditions(ctx, f, callee_rx, positions):
    """For the call of `f` matching callee_rx: the conditions under which each bool-returning callable
    handed at `positions` (a closure or a fn item) returns true, with its parameter named `elem`:
    list of DNFs (one per position), or None."""
    from vlib import sym as _sym, resalg as _ra
    calls = ctx.find_calls(f, callee_rx)
    if len(calls) != 1:
        return None
    s_, _ = ctx.sym(f)
    out = []
    for i in positions:
        e = _sym.strip_transparent(s_.operand(calls[0][1]["args"][i]))
        cb = None
        if e[0] == "closure":
            cb = _ra._closure_body(f.crate, e[1])
            pname = "a2"
        elif e[0] == "fnptr":
            cb = ctx.fn(e[1], required=False)
            pname = "a1"
        if cb is None:
            return None
        out.append([{re.sub(r"^%s\b" % pname, "elem", a) for a in d} for d in ctx.true_conditions(cb)])
    return out


def skip_filters(ctx, f):
    """The `Iterator::filter` predicates reachable from `f` (its closures, private helpers two levels
    down), as (element kind 'field'|'variant'|other, DNF with the element named `elem`) – wherever
    the filters are written: handed over as arguments, or applied inside the helpers."""
    from vlib import sym as _sym, resalg as _ra
    out = []
    bodies = [f] + [h for h in ctx.local_callees(f, depth=2) if str(h.raw.get("vis", "")).startswith("Restricted")]
    seen = set()
    for b in bodies:
        for o in [b] + ctx._closures_deep(b):
            s_, _ = ctx.sym(o)
            for _, t in ctx.find_calls(o, r"Iterator(>)?::filter$"):
                e = _sym.strip_transparent(s_.operand(t["args"][1]))
                cb, pname = None, None
                if e[0] == "closure":
                    cb, pname = _ra._closure_body(o.crate, e[1]), "a2"
                elif e[0] == "fnptr":
                    cb, pname = ctx.fn(e[1], required=False), "a1"
                if cb is None or cb.key in seen:
                    continue
                seen.add(cb.key)
                ety = cb.local_ty(2 if pname == "a2" else 1)
                kind = "field" if "codegen::field::Field" in ety else ("variant" if "codegen::variant::Variant" in ety else ety)
                out.append((kind, [{re.sub(r"^\(?%s\)?\b" % pname, "elem", a) for a in d} for d in ctx.true_conditions(cb)]))
    return out


def buffers_only_pushed(ctx, rule):
    """`__flatten` (unknown items kept for the flatten field) and `__fwd_attrs` (forwarded attributes)
    live across list items and across attributes.  Wherever a generator mentions them, it pushes to
    them, passes them by reference, moves them out once at the end, or declares them in a
    declaration generator; it never assigns or re-declares them in per-item / per-attribute code
    (that would drop what earlier items or attributes contributed, or change their order)."""
    from vlib import tpl
    core = ctx.core("on")
    n = 0
    for g in ctx.all_bodies(core):
        if not derive_file(g) or scan.is_test_body(g):
            continue
        T = tpl.Templates(g)
        if not T.events:
            continue
        declarer = "eclaration" in g.key
        for s in T.by_stream:
            toks = T.by_stream[s]
            for i, tk in enumerate(toks):
                if tk.kind == "ident" and tk.text in ("__flatten", "__fwd_attrs"):
                    n += 1
                    nxt = [(x.kind, x.text) for x in toks[i + 1:i + 3]]
                    prev = [(x.kind, x.text) for x in toks[max(0, i - 2):i]]
                    is_push = nxt[:2] == [("punct", "."), ("ident", "push")]
                    is_read_arg = bool(prev) and prev[-1] == ("punct", "&")
                    is_decl = declarer and prev[-2:] == [("ident", "let"), ("ident", "mut")]
                    is_move_out = not nxt or nxt[0] in (("punct", ")"), ("punct", ",")) or (bool(prev) and prev[-1] in (("punct", "("), ("punct", ","))) and (not nxt or nxt[0] != ("punct", "="))
                    ok = is_push or is_read_arg or is_decl or (is_move_out and not (nxt and nxt[0] == ("punct", "=")))
                    ctx.ob(rule, g.key, "%s in template" % tk.text, ok,
                           "the buffer may only be `.push(..)`-ed, borrowed, handed over at the end or declared by a declaration generator; found `%s %s %s`: reassigning or re-declaring it drops items read from earlier list items / attributes" % (" ".join(str(x[1]) for x in prev), tk.text, " ".join(str(x[1]) for x in nxt)))
    ctx.floor(rule, "mentions of the cross-attribute buffers in templates", n, 6)


def inherit_when_absent(ctx, rule_keep, rule_value, f, field, new_value_rx):
    """`self.<field>` (an Option) is filled from the parent only when it is None, and kept otherwise,
    whatever the spelling: `if x.is_none() { x = Some(v) }`, `x = x.or_else(|| Some(v))`,
    `x = Some(match x.take() { Some(own) => own, None => v })`."""
    from vlib import resalg
    writes = ctx.find_field_assigns(f, field, 1)
    keep_ok, new_ok, seen_new = True, True, False
    detail = []
    own = "self.%s" % field
    IDENT = (own, "core::option::Option::Some{(%s as Some).0}" % own)
    for blk, i, st in writes:
        for d in ctx.pc_strs(f, blk) or [set()]:
            for conds, v in resalg.expr_cases(ctx, f, st["r"]):
                both = set(d) | set(conds)
                t_, f_ = "is_some(%s)=True" % own in both, "is_some(%s)=False" % own in both
                if t_ and f_:
                    continue
                detail.append((sorted(both), v[:120]))
                if f_:
                    seen_new = True
                    if not re.search(new_value_rx, v):
                        new_ok = False
                elif v not in IDENT:
                    keep_ok = False
    # `self.x.get_or_insert_with(|| v)`: writes only when absent, by definition of the method
    goi = []
    for blk, t in ctx.find_calls(f, r"^core::option::Option::<T>::get_or_insert_with$"):
        if ctx.expr(f, t["args"][0]) == own:
            goi.append((blk, t))
            seen_new = True
            vals = []
            for c in ctx.closures_of(f):
                if c.key in ctx.expr(f, t["args"][1]):
                    vals = ctx.ret_values(c)
            detail.append((["get_or_insert_with"], [v[:120] for v in vals]))
            inner_rx = re.sub(r"^\^?(core::option::Option::)?Some\\\{", "", new_value_rx)
            inner_rx = re.sub(r"\\\}\$?$", "", inner_rx)
            if not vals or not all(re.search(inner_rx, v) for v in vals):
                new_ok = False
    writes = list(writes) + goi
    ctx.ob(rule_keep, f.key, "self.%s kept when present" % field, keep_ok and bool(writes), "writes: %s" % detail)
    ctx.ob(rule_value, f.key, "self.%s inherited when absent" % field, new_ok and seen_new, "writes: %s" % detail)

"""C04 – error trees: count, flatten, location paths and rendering obey their algebra.

Thin structural slice (DESIGN.md section 3, C04): the shape of len / multiple / into_vec /
prepend_at / at / Display / From<Error> for syn::Error / IntoIterator, with callee and constant
identity.  Not decided: count = leaves, idempotence and order preservation as universal
statements over trees (value level)."""
import re

from vlib import mir
from . import common

META = dict(
    level="thin structural slice: each function of the error algebra has the documented branch structure, callee identity and constant arguments on every path; the algebraic laws themselves (value level) are not decided",
    technique="static analysis: path-condition and callee-identity rules on MIR",
)
E = "darling_core::error::Error::"
K = "darling_core::error::kind::ErrorKind"


def rets(ctx, f):
    return [(blk, e, ctx.pc_strs(f, blk)) for blk, e in ctx.ret_exprs(f)]


def location_rules(ctx, P):
    """Rules on how location paths are built and handed down (shared by C02: every leaf names its outer-to-inner path)."""
    # ---- into_vec / flatten
    f = ctx.fn(E + "into_vec")
    if f:
        # one step per child of the bundle, as a flat_map closure or as a loop: the child gets the
        # bundle's locations in front of its own (prepend_at), is flattened itself, and the results are
        # concatenated in order
        hits = ctx.per_element(f, r"Error::prepend_at$")
        ctx.ob(P + ".into_vec.flat-map", f.key, "one prepend_at per child", len(hits) == 1 and hits[0]["form"] in ("adapter", "loop"), "%s" % [(h["form"], h["source"][:80]) for h in hits])
        okc = False
        detail = "no per-child step calls prepend_at exactly once and then recurses into into_vec"
        for h in hits[:1]:
            c, pt = h["owner"], h["t"]
            src = h["source"]
            ctx.ob(P + ".into_vec.iterates-own-children", f.key, "children iterated", src.endswith("into_iter((self.kind as Multiple).0)"), "iterates %s" % src)
            site = [blk for blk, t, owner in ctx.find_calls_deep(f, r"Error::prepend_at$")]
            for blk in site[:1]:
                ctx.requires(P + ".into_vec.bundle-recurses", f, blk, "per-child step", [r"discr\(self\.kind\)=Multiple$"])
            a0, a1 = ctx.expr(c, pt["args"][0]), ctx.expr(c, pt["args"][1])
            ctx.ob(P + ".into_vec.passes-locations", f.key, "prepend_at(child, bundle locations)", "clone(" in a1 and "locations" in a1.replace("self.0", "locations"), a1)
            rec = ctx.find_calls(c, r"Error::into_vec$")
            if len(rec) == 1:
                r0 = ctx.expr(c, rec[0][1]["args"][0])
                from .C01 import _sources
                s_, _ = ctx.sym(c)
                pdest = pt["dest"]["local"]
                pblk = [b2 for b2, t2 in ctx.find_calls(c, r"Error::prepend_at$")][0]
                srcs = _sources(c, s_, s_.operand(rec[0][1]["args"][0]))
                derives = "darling_core::error::Error::prepend_at(" in r0 or pdest in srcs
                child = a0 == "a2" if c is not f else ("Iterator>::next(" in a0 or "as Some).0" in a0)
                okc = child and derives and c.dominates(pblk, rec[0][0])
                detail = "prepend_at(%s, %s); into_vec(%s) derives from prepend_at: %s" % (a0[:60], a1[:60], r0[:80], derives)
                # concatenation in order
                if c is f:
                    ext = [(b2, t2) for b2, t2 in ctx.find_calls(f, r"(Extend<.*>>|Vec::<T, A>)::(extend|append)$") if "Error::into_vec(" in ctx.expr(f, t2["args"][1])]
                    rv = ctx.ret_values(f)
                    okcoll = len(ext) == 1 and ctx.expr(f, ext[0][1]["args"][0]) in rv
                    ctx.ob(P + ".into_vec.collects-in-order", f.key, "out.extend(child.into_vec()) in loop order; return out", okcoll, "extend calls %d; returns %s" % (len(ext), [r[:80] for r in rv]))
                else:
                    coll = [e for e in ctx.ret_values(f) if "::collect(" in e]
                    ctx.ob(P + ".into_vec.collects-in-order", f.key, "collect()", len(coll) == 1 and "flat_map" in coll[0], "returns %s" % [e[:100] for e in coll])
        ctx.ob(P + ".into_vec.child-gets-ancestor-path", f.key, "per child: prepend_at(child, bundle locations) then recurse", okc, detail)
        rs = rets(ctx, f)
        leaf = [(e, pc) for _, e, pc in rs if "box_assume_init_into_vec" in e]
        has_self_array = any(st["r"]["k"] == "aggregate" and st["r"]["agg"] == "array" and [ctx.expr(f, o) for o in st["r"]["ops"]] == ["self"] for _, _, st in f.stmts() if st["k"] == "assign")
        ctx.ob(P + ".into_vec.leaf-is-singleton", f.key, "vec![self]", len(leaf) == 1 and has_self_array and all(ctx._sat(d, ("ne", r"^discr\(self\.kind\)$", "Multiple")) for d in leaf[0][1]),
               "leaf arm returns a one-element vector holding self")
    f = ctx.fn(E + "flatten")
    if f:
        rs = ctx.ret_values(f)
        ctx.ob(P + ".flatten.def", f.key, "return", rs == ["darling_core::error::Error::multiple(darling_core::error::Error::into_vec(self))"], "returns %s" % rs)
    # ---- prepend_at / at
    f = ctx.fn(E + "prepend_at")
    if f:
        # `locations.extend(self.locations)` or `locations.append(&mut self.locations)`: the handed-down
        # prefix first, the error's own locations after it
        ext = ctx.find_calls(f, r"Extend<.*>>::extend$|^alloc::vec::Vec::<T, A>::(append|extend_from_slice)$")
        ok = len(ext) == 1 and ctx.expr(f, ext[0][1]["args"][0]) == "a2" and ctx.expr(f, ext[0][1]["args"][1]) == "self.locations"
        # the same result the other way round: the prefix is swapped in and the old locations appended
        swapped = len(ext) == 1 and ctx.expr(f, ext[0][1]["args"][0]) == "self.locations" and ctx.expr(f, ext[0][1]["args"][1]) == "core::mem::replace(self.locations, a2)"
        ctx.ob(P + ".prepend_at.ancestors-first", f.key, "locations.extend(self.locations)", ok or swapped, "extend(%s)" % [(ctx.expr(f, t["args"][0]), ctx.expr(f, t["args"][1])) for _, t in ext])
        asg = ctx.find_field_assigns(f, "locations", 1)
        ok = len(asg) == 1 and ctx.expr(f, asg[0][2]["r"]) == "a2" and f.dominates(ext[0][0], asg[0][0]) if ext else False
        if swapped:
            rp = ctx.find_calls(f, r"^core::mem::replace$")
            ok = not asg and len(rp) == 1 and f.dominates(rp[0][0], ext[0][0])
        ctx.ob(P + ".prepend_at.stores-combined", f.key, "self.locations = locations", ok, "assignments %s" % [ctx.expr(f, a[2]["r"]) for a in asg])
        # (no rule on the `!locations.is_empty()` guard: with an empty prefix both ways leave the locations as they were)
        rs = ctx.ret_values(f)
        ctx.ob(P + ".prepend_at.returns-self", f.key, "return", rs == ["self"], "returns %s" % rs)
    f = ctx.fn(E + "at")
    if f:
        ins = ctx.find_calls(f, r"Vec::<T, A>::insert$")
        ok = len(ins) == 1 and ctx.expr(f, ins[0][1]["args"][0]) == "self.locations" and ctx.expr(f, ins[0][1]["args"][1]) == "0_usize" and "to_string(a2)" in ctx.expr(f, ins[0][1]["args"][2])
        ctx.ob(P + ".at.inserts-at-front", f.key, "locations.insert(0, location.to_string())", ok, "insert(%s)" % [[ctx.expr(f, a) for a in t["args"]] for _, t in ins])
        # every location is recorded: a key equal to its parent's (`a/a`) is still a level of the path
        rets_ = [bb for bb in sorted(f.normal_blocks()) if f.term(bb)["k"] == "return"]
        ctx.ob(P + ".at.unconditional", f.key, "insert on every path", len(ins) == 1 and all(f.dominates(ins[0][0], r) for r in rets_) and ctx.pc_strs(f, ins[0][0]) == [set()],
               "locations.insert must run on every call of at(): path condition %s" % (ctx.pc_strs(f, ins[0][0]) if ins else None))
        rs = ctx.ret_values(f)
        ctx.ob(P + ".at.returns-self", f.key, "return", rs == ["self"], "returns %s" % rs)
    f = ctx.fn(E + "at_path")
    if f:
        rs = ctx.ret_values(f)
        ctx.ob(P + ".at_path.def", f.key, "return", rs == ["darling_core::error::Error::at(self, darling_core::util::path_to_string::path_to_string(a2))"], "returns %s" % rs)


def syn_conversion_rules(ctx, P):
    """`From<darling::Error> for syn::Error`: a single error converts directly, a bundle is flattened
    (which hands the bundle's span and location to leaves that have none) and every leaf becomes one
    diagnostic, in order.  Shared with C03 (conversion preserves each leaf's span)."""
    # ---- From<Error> for syn::Error
    f = ctx.fn("darling_core::error::<impl core::convert::From<darling_core::error::Error> for syn::error::Error>::from")
    if f:
        news = ctx.find_calls(f, r"^syn::error::Error::new")
        ctx.ob(P + ".single-shape", f.key, "two Error::new sites", len(news) == 2, "%d" % len(news))
        for blk, t in news:
            ctx.requires(P + ".single-direct", f, blk, "syn::Error::new", [r"^darling_core::error::Error::len\(a1\)=1$"])
        # the bundle branch may live in `from` itself or in one private helper it hands the error to
        M = f
        if not ctx.find_calls(f, r"Error::flatten$"):
            hs = [h for h in ctx.local_callees(f, 1) if str(h.raw.get("vis", "")).startswith("Restricted") and ctx.find_calls(h, r"Error::flatten$")]
            if len(hs) == 1:
                M = hs[0]
                site = [(b2, t2) for b2, t2 in f.calls() if mir.callee_of(t2) == M.key]
                ctx.ob(P + ".multi-helper", f.key, "bundle handed to %s" % M.key.rsplit("::", 1)[-1], len(site) == 1 and ctx.expr(f, site[0][1]["args"][0]) == "a1", "call sites %d" % len(site))
                for b2, t2 in site:
                    ctx.requires(P + ".multi-flattens", f, b2, "bundle branch", [("ne", r"^darling_core::error::Error::len\(a1\)$", 1)])
        fl = ctx.find_calls(M, r"Error::flatten$")
        comb_deep = ctx.find_calls_deep(M, r"^syn::error::Error::combine$")
        comb = [(blk, t) for blk, t, owner in comb_deep if owner is M]
        ctx.ob(P + ".multi-shape", f.key, "flatten + combine", len(fl) == 1 and len(comb_deep) == 1, "%d flatten, %d combine" % (len(fl), len(comb_deep)))
        for blk, t in fl + [(blk, t) for blk, t, _ in comb_deep]:
            ctx.requires(P + ".multi-flattens", M, blk, "flatten/combine", [("ne", r"^darling_core::error::Error::len\(a1\)$", 1)])
        # the leaves: flatten(a1).into_iter(), converted either all at once (`.map(syn::Error::from)`)
        # or one by one where they are used
        FROM = r"(?:[\w:<]*From<darling_core::error::Error>(?: for syn::error::Error)?>::from|(?:darling_core::error::)?<impl core::convert::From<darling_core::error::Error> for syn::error::Error>::from)"
        norm = lambda x: x.replace("<darling_core::error::Error as core::iter::traits::collect::IntoIterator>::", "")
        mp = [(b2, t2) for b2, t2 in ctx.find_calls(M, r"Iterator(>)?::map$") if "into_iter(darling_core::error::Error::flatten(a1))" in norm(ctx.expr(M, t2["args"][0]))]
        mapped = len(mp) == 1 and re.search(FROM, ctx.expr(M, mp[0][1]["args"][1])) is not None
        IT = r"into_iter\(darling_core::error::Error::flatten\(a1\)\)"
        conv = lambda x: re.search(FROM + r"\($", x) is not None
        for blk, t, owner in comb_deep:
            args = [norm(ctx.expr(owner, a)) for a in t["args"]]
            if owner is M:
                # a loop over the iterator
                e2 = args[1]
                elem = re.search(r"Iterator>::next\(.*" + IT + r".*\) as Some\)\.0\)?$", e2) is not None
                ok = elem and (mapped or re.match(r"^" + FROM + r"\(", e2) is not None)
                ctx.ob(P + ".combine-each-leaf", f.key, "combine(next leaf)", ok, "combines %s (iterator %s)" % (e2[:160], "mapped" if mapped else "not mapped"))
                inloop = blk in M.reachable(t["target"], False) if t["target"] is not None else False
                ctx.ob(P + ".combine-in-loop", f.key, "combine repeated for every remaining leaf", inloop, "combine must be inside the loop over the flattened iterator")
            else:
                # the same accumulation written as `iter.fold(first, |mut acc, next| { acc.combine(next); acc })`
                folds = [(b2, t2) for b2, t2 in ctx.find_calls(M, r"Iterator(>)?::(fold|reduce)$") if owner.key in ctx.expr(M, t2["args"][-1])]
                crets = ctx.ret_values(owner)
                leaf = args[1] == "a3" if mapped else re.match(r"^" + FROM + r"\(a3\)$", args[1]) is not None
                ok = len(folds) == 1 and args[0] == "a2" and leaf and crets == ["a2"]
                ctx.ob(P + ".combine-each-leaf", f.key, "fold(first, |acc, next| acc.combine(next))", ok, "fold calls %d, combine%s, closure returns %s (iterator %s)" % (len(folds), args, crets, "mapped" if mapped else "not mapped"))
                if folds:
                    it = norm(ctx.expr(M, folds[0][1]["args"][0]))
                    ok = re.search(IT, it) is not None and (re.search(r"Iterator(>)?::map\(", it) is not None) == mapped
                    ctx.ob(P + ".combine-in-loop", f.key, "combine repeated for every remaining leaf", ok, "fold over %s" % it[:160])
                    # the accumulator starts from the first leaf, converted
                    if len(folds[0][1]["args"]) == 3:
                        init = norm(ctx.expr(M, folds[0][1]["args"][1]))
                        ok = re.search(r"Iterator>::next\(.*" + IT, init) is not None and (mapped or re.search(FROM, init) is not None)
                        ctx.ob(P + ".combine-each-leaf", f.key, "fold starts from the first leaf", ok, "initial value %s" % init[:200])
                    # (`reduce` starts from the first element of the same iterator by definition)
        if mapped:
            ok = True
            detail = "map(%s)" % [[ctx.expr(M, a)[:120] for a in t["args"]] for _, t in mp]
        else:
            # no blanket map: every place that takes a leaf from the iterator converts it
            takes = [norm(ctx.expr(o, t2["args"][0])) for _, t2, o in ctx.find_calls_deep(M, r"^" + FROM + "$")]
            takes += [norm(ctx.expr(M, t2["args"][0])) for _, t2 in ctx.find_calls(M, r"Option::<T>::map$") if re.search(FROM, ctx.expr(M, t2["args"][1]))]
            ok = not mp and len(takes) >= 2
            detail = "leaf conversions at %s" % [x[:100] for x in takes]
        ctx.ob(P + ".one-diagnostic-per-leaf", f.key, "flatten().into_iter().map(syn::Error::from)", ok, detail)


def run(ctx):
    # ---- len
    f = ctx.fn(K + "::len")
    if f:
        rs = rets(ctx, f)
        ok1 = ok2 = False
        for blk, e, pc in rs:
            if e == "1_usize":
                ok1 = all(ctx._sat(d, ("ne", r"^discr\(self\)$", "Multiple")) for d in pc)
            elif "::sum(" in e:
                ok2 = all(ctx._sat(d, r"discr\(self\)=Multiple$") for d in pc) and "fn darling_core::error::Error::len" in e and "(self as Multiple).0" in e
        if not ok2:
            # the same sum as a fold: `items.iter().fold(0, |n, e| n + e.len())`
            for blk, e, pc in rs:
                m_ = re.search(r"Iterator>::fold\(.*\(self as Multiple\)\.0\)+, 0_usize, closure ([^\[]+)\[", e)
                if m_ and all(ctx._sat(d, r"discr\(self\)=Multiple$") for d in pc):
                    for c in ctx.closures_of(f):
                        if c.key == m_.group(1):
                            ok2 = ctx.ret_values(c) in (["AddWithOverflow(a2, darling_core::error::Error::len(a3)).0"], ["Add(a2, darling_core::error::Error::len(a3))"])
        if not ok2:
            # the same sum as a loop: `let mut n = 0; for e in items { n += e.len() }`
            adds = [(e, pc) for blk, e, pc in rs if e.startswith("AddWithOverflow(")]
            zero = [(e, pc) for blk, e, pc in rs if e == "0_usize"]
            ok2 = len(adds) == 1 and len(zero) == 1 and len(rs) == 3 \
                and re.search(r"darling_core::error::Error::len\(\(.*Iterator>::next\(.*\(self as Multiple\)\.0\)+ as Some\)\.0\)", adds[0][0]) is not None \
                and all(ctx._sat(d, r"discr\(self\)=Multiple$") for e, pc in adds + zero for d in pc)
            if ok2:
                rs = [r for r in rs if r[1] == "1_usize"] + [None]
        ctx.ob("C04.len.leaf-is-one", f.key, "return 1", ok1 and len(rs) == 2, "returns %s" % [(r[1][:80], [sorted(d) for d in r[2]]) for r in rs if r])
        ctx.ob("C04.len.bundle-sums-children", f.key, "return sum(map(Error::len))", ok2, "the Multiple arm must sum Error::len over its own vector")
    f = ctx.fn(E + "len")
    if f:
        rs = ctx.ret_values(f)
        ctx.ob("C04.len.delegates", f.key, "return", rs == ["darling_core::error::kind::ErrorKind::len(self.kind)"], "returns %s" % rs)
    # ---- multiple
    f = ctx.fn(E + "multiple")
    if f:
        pops = ctx.find_calls(f, r"Vec::<T, A>::pop$")
        pan = ctx.find_calls(f, r"^core::panicking::")
        agg = ctx.find_aggregates(f, r"ErrorKind$", "Multiple")
        ctx.ob("C04.multiple.shape", f.key, "pop / panic / bundle", (len(pops), len(pan), len(agg)) == (1, 1, 1), str((len(pops), len(pan), len(agg))))
        for blk, t in pops:
            ctx.requires("C04.multiple.one-is-identity", f, blk, "pop()", [r"len\(a1\)=1$"])
        for blk, t in pan:
            ctx.requires("C04.multiple.zero-panics", f, blk, "panic", [r"len\(a1\)=0$"])
        for blk, i, st in agg:
            ctx.requires("C04.multiple.n-bundles", f, blk, "Multiple", [("ne", r"^len\(a1\)$", 0), ("ne", r"^len\(a1\)$", 1)])
        rs = ctx.ret_values(f)
        ok = any(re.search(r"^\(alloc::vec::Vec::<T, A>::pop\(a1\) as Some\)\.0$", e) for e in rs) and any("Error::new(" in e and "Multiple{a1}" in e for e in rs)
        ctx.ob("C04.multiple.values", f.key, "returns", ok, "returns %s" % rs)
    location_rules(ctx, "C04")
    # ---- Display
    f = ctx.fn("<darling_core::error::Error as core::fmt::Display>::fmt")
    if f:
        joins = ctx.find_calls(f, r"::join")
        ok = len(joins) == 1 and "self.locations" in ctx.expr(f, joins[0][1]["args"][0]) and ctx.expr(f, joins[0][1]["args"][1]) == '"/"'
        ctx.ob("C04.display.path-joined-by-slash", f.key, "locations.join(\"/\")", ok, "join(%s)" % [[ctx.expr(f, a) for a in t["args"]] for _, t in joins])
        for blk, t in joins:
            ctx.requires("C04.display.path-only-when-present", f, blk, "join", [("ne", r"^len\(self\.locations\)$", 0)])
        kinds = ctx.find_calls(f, r"Argument::<'_>::new_display::<.*ErrorKind>")
        ok = len(kinds) == 1 and all(f.dominates(kinds[0][0], b) for b, _ in joins)
        ctx.ob("C04.display.kind-first", f.key, "kind is formatted before the path", ok, "%d kind display calls" % len(kinds))
        # the separator literal " at "
        sep = [ctx.expr(f, a) for blk, t in ctx.find_calls(f, r"fmt::Arguments::<'_>::new") for a in t["args"][:1]]
        ctx.ob("C04.display.separator", f.key, "' at ' literal", any(" at " in s for s in sep), "format pieces: %s" % sep)
    # a bundle renders each child as a whole error (message *and* path), never through its kind alone
    f = ctx.fn("<darling_core::error::kind::ErrorKind as core::fmt::Display>::fmt")
    if f:
        shown = []
        for blk, t in f.calls():
            c = mir.callee_of(t) or ""
            if not re.search(r"Argument::<'_>::new_(display|debug|lower_hex)|as core::fmt::(Display|Debug)>::fmt$", c) or not t["args"]:
                continue
            a0 = ctx.expr(f, t["args"][0])
            if "(self as Multiple).0" not in a0:
                continue
            ty = " ".join(mir.callee_info(t).get("targs") or [mir.callee_info(t).get("self_ty") or ""]).lstrip("&").strip()
            shown.append((blk, ty, a0))
            ctx.ob("C04.display.bundle-shows-whole-children", f.key, "child rendered as %s" % ty, ty == "darling_core::error::Error",
                   "a member of a bundle is rendered through %s (%s): its ` at a/b/c` path is lost in the bundle's message" % (ty, a0[:100]))
        ctx.ob("C04.display.bundle-shows-whole-children", f.key, "children are rendered", len(shown) >= 2, "%d renderings of bundle members (the single-member case and the general case)" % len(shown))
        rep = [h for h in ctx.per_element(f, r"^<darling_core::error::Error as core::fmt::Display>::fmt$|Argument::<'_>::new_display$") if "(self as Multiple).0" in h["source"]]
        ctx.ob("C04.display.bundle-shows-whole-children", f.key, "every member is rendered", len(rep) == 1 and rep[0]["form"] in ("loop", "adapter"), "%s" % [(h["form"], h["source"][:80]) for h in rep])
    syn_conversion_rules(ctx, "C04.syn")
    # ---- IntoIterator: one level
    f = ctx.fn("<darling_core::error::Error as core::iter::traits::collect::IntoIterator>::into_iter")
    if f:
        mult = ctx.find_aggregates(f, r"IntoIterEnum$", "Multiple")
        sing = ctx.find_aggregates(f, r"IntoIterEnum$", "Single")
        ctx.ob("C04.iter.shape", f.key, "Single / Multiple", len(mult) == 1 and len(sing) == 1, "%d/%d" % (len(sing), len(mult)))
        for blk, i, st in mult:
            ctx.requires("C04.iter.bundle-children", f, blk, "Multiple(children)", [r"discr\(self\.kind\)=Multiple$"])
            e = ctx.expr(f, st["r"])
            ctx.ob("C04.iter.one-level", f.key, "children iterator", "into_iter((self.kind as Multiple).0)" in e and "flat" not in e, e[:160])
        for blk, i, st in sing:
            e = ctx.expr(f, st["r"])
            ctx.ob("C04.iter.leaf-once", f.key, "once(self)", "core::iter::sources::once::once(self)" in e, e[:160])
    return ctx.finish(
        explanation="Shape rules (branch structure, callee identity, constant arguments, argument provenance) for the ten functions of the error algebra.",
        assumptions=["std iterator adapters (flat_map, map, collect, sum, join, insert, extend) behave as documented",
                     "count/idempotence/order laws over all trees are value-level statements outside this family"],
    )

"""C20 – every emitted implementation compiles and is self-contained.

Decided [A,H] for all receivers: path closure (every absolute path a template emits starts with
`::darling` and resolves in the facade's public item set – F13), hygiene (binders introduced by
templates start with `__` wherever user tokens are interpolated in their scope), coercion (user
callables only as the argument of `identity::<fn(..) -> ..>`), definition-before-use of generated
locals across sibling fn-body templates (F19), filled ⇒ consumed for magic slots (F16).
Decided [B]: the Level-B corpus – a crate that depends only on `darling` – type-checks under
rustc (thorough: plus seeded random receivers).  Thorough: compile-fail witness for capturing
closures.  Not decided: option combinations outside the corpus."""
import re

from vlib import resalg, mir, scan, tpl
from . import common

META = dict(
    level="self-containedness and hygiene are decided on the generator's templates for all receivers; type-checking is decided by rustc on a generated corpus of accepted declarations that depends only on darling",
    technique="static analysis: template IR path-closure / hygiene / coercion rules against the facade's resolved public item set; rustc type-check of a generated corpus (translation validation of the generator)",
)
GENERATED_LOCALS = ["__errors", "__default", "__flatten", "__fwd_attrs", "__items"]
ALLOWED_PLAIN_BINDERS = {
    # binder -> reason (no user token can appear in its scope)
    "e": "closure parameter of `.map_err(|e| e.…)`: the closure body is generated text only, no user token is interpolated inside it",
    "struct_check": "inside the generated fn __validate_body, whose body interpolates no user token",
    "enum_check": "inside the generated fn __validate_body, whose body interpolates no user token",
    "variant_errors": "inside the generated fn __validate_body",
    "data": "pattern binder inside the generated fn __validate_body",
    "struct_data": "pattern binder inside the generated fn __validate_body",
    "variant": "loop binder inside the generated fn __validate_body",
    "lit": "parameter of the generated fn from_string; the arms interpolate only string literals, type idents and the field type of newtype variants (type position)",
    "expr": "closure pattern in the discriminant initialiser; generated text only",
    "_": "wildcard",
}
USER_CALLABLE_TYPES = ("syn::expr::Expr", "darling_core::util::callable::Callable")


SAFE_INTERP = re.compile(r"^(darling_core::options::shape::DataShape|alloc::string::String|str|syn::ty::Type|proc_macro2::Literal|bool|usize|darling_core::util::shape::Shape)$")


def _strip_wrappers(ty):
    ty = ty or ""
    for _ in range(4):
        m = re.match(r"^(?:core::option::Option|quote::__private::RepInterp|alloc::borrow::Cow<'_,) ?<?(.*?)>$", ty)
        m2 = re.match(r"^(?:core::option::Option|quote::__private::RepInterp)<(.*)>$", ty)
        if m2:
            ty = m2.group(1)
            continue
        m3 = re.match(r"^alloc::borrow::Cow<'_, (.*)>$", ty)
        if m3:
            ty = m3.group(1)
            continue
        break
    return ty


def _path_position(toks, j):
    """the ident interpolated at toks[j] is a path segment (`#a :: b`, `x :: #a`) or a member name
    (`. #a`): it lives in the type namespace / names a field, never a local variable"""
    prev = toks[j - 1] if j > 0 else None
    nxt = toks[j + 1] if j + 1 < len(toks) else None
    if nxt is not None and nxt.kind == "punct" and nxt.text == "::":
        return True
    if prev is not None and prev.kind == "punct" and prev.text in ("::", "."):
        return True
    return False


def carries_user_tokens(T, toks, j, depth=0):
    """may the tokens printed for the interpolation toks[j] contain text the user wrote that can see
    or be seen by a local binding (an expression, a path to a function, an identifier used as a
    value)?  Types are not counted: a type cannot refer to a local binding."""
    tk = toks[j]
    if tk.kind == "append":
        # `tokens.append_all(quote!(..))`: the appended stream is one of this generator's own streams
        return not T.stream_alts(tk.inner)
    ty = _strip_wrappers(tk.ty)
    if SAFE_INTERP.match(ty):
        return False
    if tk.kind == "interp" and tk.src is not None and 1 <= tk.src <= T.b.arg_count and depth < 3 and T.b.kind in ("Fn", "AssocFn") \
            and str(T.b.raw.get("vis", "")).startswith("Restricted"):
        # a parameter of a private helper: what its callers pass decides (a template of the caller
        # that interpolates nothing user-written is harmless)
        sites = []
        for raw in T.b.crate["bodies"]:
            if raw["key"] == T.b.key:
                continue
            for blk_ in raw["blocks"]:
                tm = blk_["term"]
                if tm.get("k") == "call" and mir.callee_of(tm) == T.b.key:
                    sites.append((raw, tm))
        if sites:
            harmless = True
            for raw, tm in sites:
                Tc = tpl.Templates(mir.Body(raw, T.b.crate))
                if tk.src - 1 >= len(tm["args"]):
                    harmless = False
                    break
                a_ = tm["args"][tk.src - 1]
                if a_["k"] not in ("copy", "move"):
                    continue
                root = tpl.ref_root(Tc.b, a_)
                alts = Tc.stream_alts(root) if root is not None else []
                if not alts or not all(x > Tc.b.arg_count for x in alts):
                    harmless = False
                    break
                for x in alts:
                    tx = Tc.by_stream.get(x, [])
                    for kk, t3 in enumerate(tx):
                        if t3.kind in ("interp", "append") and not (t3.kind == "interp" and Tc.stream_alts(t3.src)) and carries_user_tokens(Tc, tx, kk, depth + 1):
                            harmless = False
            if harmless:
                return False
    if ty == "proc_macro2::Ident" and _path_position(toks, j):
        return False
    if depth < 4:
        ct = T.callee_templates(tk)
        if ct is not None and ct is not T:
            call = getattr(T, "_calls", {}).get(id(tk))
            for s2, toks2 in ct.by_stream.items():
                for k, t2 in enumerate(toks2):
                    if t2.kind == "interp" and t2.src is not None and 1 <= t2.src <= ct.b.arg_count and call is not None and call[0] is T and t2.src - 1 < len(call[1]["args"]):
                        # a parameter of the helper: what the caller passes for it decides
                        a_ = call[1]["args"][t2.src - 1]
                        if a_["k"] not in ("copy", "move"):
                            continue                      # a constant (`"enum"`)
                        root = tpl.ref_root(T.b, a_)
                        alts = T.stream_alts(root) if root is not None else []
                        if alts and all(x > T.b.arg_count for x in alts):
                            # a template of the caller: user tokens only if it interpolates some
                            inner_user = False
                            for x in alts:
                                tx = T.by_stream.get(x, [])
                                for kk, t3 in enumerate(tx):
                                    if t3.kind in ("interp", "append") and not (t3.kind == "interp" and T.stream_alts(t3.src)) and carries_user_tokens(T, tx, kk, depth + 1):
                                        inner_user = True
                            if inner_user:
                                return True
                            continue
                    if t2.kind in ("interp", "append") and not (t2.kind == "interp" and ct.stream_alts(t2.src)) and carries_user_tokens(ct, toks2, k, depth + 1):
                        return True
            return False
    return True


def user_tokens_in_scope(T, s, i, kind="let"):
    """user-carrying interpolations in the scope of the binder at position i of stream s.
    kind: 'let' | 'closure' | 'for' (rest of the own group), 'pattern' (rest of the own group and of
    the enclosing ones up to the arm's brace), 'param' (the fn body after the parameter list)"""
    out = []

    def scan(stream, start, seen, stop_after_brace=False):
        toks = T.by_stream.get(stream, [])
        for j in range(start, len(toks)):
            tk = toks[j]
            if tk.kind == "interp" and T.stream_alts(tk.src):
                for a in T.stream_alts(tk.src):
                    if a not in seen:
                        scan(a, 0, seen | {a})
            elif tk.kind in ("interp", "append") and carries_user_tokens(T, toks, j):
                out.append("%s %s" % (tk.ty, (tk.expr or "")[:60]))
            if tk.kind in ("group", "append") and tk.inner in T.by_stream and tk.inner not in seen:
                scan(tk.inner, 0, seen | {tk.inner})
                if stop_after_brace and tk.kind == "group" and tk.text == "Brace":
                    return

    def parent_of(cur):
        for ps, toks in T.by_stream.items():
            for j, tk in enumerate(toks):
                if tk.kind in ("group", "append") and tk.inner == cur and ps != cur:
                    return ps, j, tk
        return None

    if kind == "param":
        p = parent_of(s)
        if p is not None:
            scan(p[0], p[1] + 1, {p[0], s}, stop_after_brace=True)
        return out
    scan(s, i + 1, {s})
    if kind == "pattern":
        cur = s
        for _ in range(3):
            p = parent_of(cur)
            if p is None or (p[2].kind == "group" and p[2].text == "Brace"):
                break
            scan(p[0], p[1] + 1, {p[0], cur})
            cur = p[0]
    return out


def facade(ctx):
    cs = [c for c in ctx.crates("darling") if not c["test"] and c.get("public")]
    if not cs:
        ctx.anchor_missing("C20.H.path-closure", "darling facade", "public item set missing from facts")
        return None
    return cs[0]["public"]


def resolve(pub, segs):
    """segs after `darling`: resolve the longest prefix that is a public item; the rest must be associated names."""
    for n in range(len(segs), 0, -1):
        key = "::" + "::".join(segs[:n])
        if key in pub:
            rest = segs[n:]
            if not rest:
                return True, key
            if len(rest) == 1 and any(rest[0] in e["assoc"] for e in pub[key]):
                return True, key + " . " + rest[0]
            if len(rest) >= 1 and any(e["kind"] in ("Mod",) for e in pub[key]):
                return False, "%s has no public item `%s`" % (key, rest[0])
            if len(rest) == 1 and rest[0] in ("from", "into", "default", "clone") and any(e["kind"] in ("Struct", "Enum", "TyAlias", "Union") for e in pub[key]):
                # a method of a std prelude trait (From / Into / Default / Clone) called through the type
                return True, key + " . " + rest[0] + " (prelude trait method)"
            # enum variant followed by nothing else / trait static call `Trait::method`
            return False, "`%s` is not an associated item of %s" % ("::".join(rest), key)
    return False, "no public item `::darling::%s`" % segs[0]


def abs_paths(toks):
    """Absolute paths (`:: a :: b …` not preceded by an identifier, `>` or an interpolation)."""
    out = []
    i = 0
    while i < len(toks) - 1:
        if toks[i] == "::" and (i == 0 or not (re.match(r"^[A-Za-z_]\w*$", toks[i - 1]) or toks[i - 1] in (">", ">>") or toks[i - 1].startswith("⟨") or toks[i - 1] == "⟩")):
            segs = []
            j = i
            while j + 1 < len(toks) and toks[j] == "::" and re.match(r"^[A-Za-z_]\w*$", toks[j + 1]):
                segs.append(toks[j + 1])
                j += 2
            if segs:
                out.append((i, segs))
            i = max(j, i + 1)
        else:
            i += 1
    return out


def run(ctx):
    core = ctx.core("on")
    pub = facade(ctx)
    gens = [b for b in ctx.all_bodies(core) if common.derive_file(b) and not scan.is_test_body(b)]
    n_paths = 0
    distinct = set()
    binders_seen = 0
    if pub is not None:
        for b in gens:
            T = tpl.Templates(b)
            if not T.events:
                continue
            seen_here = set()
            for s in T.by_stream:
                if T.by_stream[s][0].kind == "append" and s <= b.arg_count:
                    pass
                toks = []
                for tk in T.by_stream[s]:
                    if tk.kind in ("ident", "punct", "lifetime", "lit"):
                        toks.append(tk.text or "?")
                    elif tk.kind == "group":
                        toks.append("⟨group⟩")
                    else:
                        toks.append("⟨interp⟩")
                for i, segs in abs_paths(toks):
                    key = tuple(segs)
                    if key in seen_here:
                        continue
                    seen_here.add(key)
                    n_paths += 1
                    distinct.add(key)
                    ev = "path ::%s" % "::".join(segs)
                    if segs[0] != "darling":
                        ctx.ob("C20.H.path-closure", b.owner_fn or b.key, ev, False,
                               "F13: generated code names `::%s`, a crate the receiver's crate need not depend on; every dependency must be named through darling's own re-exports" % "::".join(segs))
                        continue
                    ok, why = resolve(pub, segs[1:])
                    ctx.ob("C20.H.path-closure", b.owner_fn or b.key, ev, ok, why)
        ctx.floor("C20.H.paths", "distinct absolute paths in templates", len(distinct), 40)
    # ---------------------------------------------------------------- hygiene
    for b in gens:
        T = tpl.Templates(b)
        if not T.events:
            continue
        for s in T.by_stream:
            toks = T.by_stream[s]
            for i, tk in enumerate(toks):
                name = None
                bkind = "let"
                if tk.kind == "ident" and tk.text == "let":
                    j = i + 1
                    if j < len(toks) and toks[j].kind == "ident" and toks[j].text == "mut":
                        j += 1
                    if j < len(toks) and toks[j].kind == "ident":
                        name = toks[j].text
                        nxt = toks[j + 1] if j + 1 < len(toks) else None
                        if nxt is not None and (nxt.kind == "group" or (nxt.kind == "punct" and nxt.text == "::")):
                            name = None  # a pattern constructor (`let Some(x) = …`), its own binders are scanned inside the group
                    elif j < len(toks) and toks[j].kind == "interp":
                        name = None  # the receiver's own field ident (a slot named after the field) – see C20.H.slot-names
                elif tk.kind == "ident" and tk.text in ("ref",) and i + 1 < len(toks) and toks[i + 1].kind == "ident":
                    name = toks[i + 1].text
                    bkind = "pattern"
                elif tk.kind == "punct" and tk.text == "|" and i + 2 < len(toks) and toks[i + 1].kind == "ident" and toks[i + 2].kind == "punct" and toks[i + 2].text == "|":
                    name = toks[i + 1].text
                    bkind = "closure"
                elif tk.kind == "ident" and tk.text == "for" and i + 1 < len(toks) and toks[i + 1].kind == "ident":
                    name = toks[i + 1].text
                if name is None or name in ("mut", "ref", "_"):
                    continue
                binders_seen += 1
                ok = name.startswith("__")
                why = "double-underscore"
                if not ok:
                    # a plain name is harmless only where no user-written token can stand in its scope
                    users = user_tokens_in_scope(T, s, i, bkind)
                    ok = not users
                    why = "no user token is interpolated in the scope of this binder" if ok else \
                        "a generated binder that does not start with `__` can shadow or capture the receiver's field, variant or generic names: user tokens in its scope: %s" % users[:4]
                ctx.ob("C20.H.hygienic-binder", b.owner_fn or b.key, "binder `%s`" % name, ok, why)
    ctx.floor("C20.H.binders", "binders introduced by templates", binders_seen, 25)
    # match-arm binders of generated matches: `__other`, `__type_fallback`, `__value`, `__val`, `__err`, `__data`, `__items`, `__nested`
    # fn parameters of generated fns
    for b in gens:
        T = tpl.Templates(b)
        for s in T.by_stream:
            toks = T.by_stream[s]
            for i, tk in enumerate(toks):
                if tk.kind == "ident" and tk.text == "fn" and i + 2 < len(toks) and toks[i + 2].kind == "group" and toks[i + 2].text == "Parenthesis":
                    inner = T.by_stream.get(toks[i + 2].inner, [])
                    for j, p in enumerate(inner):
                        if p.kind == "ident" and j + 1 < len(inner) and inner[j + 1].kind == "punct" and inner[j + 1].text == ":":
                            ok = p.text.startswith("__")
                            why = "generated fn parameter"
                            if not ok:
                                users = user_tokens_in_scope(T, toks[i + 2].inner, j, "param")
                                ok = not users
                                why = "generated fn parameter; user tokens in the fn: %s" % users[:4]
                            ctx.ob("C20.H.hygienic-binder", b.owner_fn or b.key, "fn parameter `%s`" % p.text, ok, why)
    # ---------------------------------------------------------------- coercion of user callables
    n_call = 0
    for b in gens:
        T = tpl.Templates(b)
        for s in T.by_stream:
            toks = T.by_stream[s]
            for i, tk in enumerate(toks):
                if tk.kind == "interp" and tk.ty in USER_CALLABLE_TYPES:
                    # a template shared through a private helper stands for each use of the helper
                    uses = 1
                    if b.kind in ("Fn", "AssocFn") and str(b.raw.get("vis", "")).startswith("Restricted") and not b.key.endswith("::to_tokens"):
                        uses = max(1, sum(1 for c in gens for _, t_ in c.calls() if mir.callee_of(t_) == b.key))
                    n_call += uses
                    # must be the sole content of a parenthesised group that directly follows `identity :: < fn … >`
                    only = len(toks) == 1
                    parent_ok = False
                    for s2, toks2 in T.by_stream.items():
                        for k, t2 in enumerate(toks2):
                            if t2.kind == "group" and t2.inner == s and t2.text == "Parenthesis":
                                pre = [x.text for x in toks2[max(0, k - 40):k] if x.kind in ("ident", "punct")]
                                txt = " ".join(pre)
                                parent_ok = re.search(r"identity :: < fn $|identity :: < fn .*(>|>>)$", txt) is not None or "identity :: < fn" in txt
                    ctx.ob("C20.H.callable-coerced", b.owner_fn or b.key, "user callable interpolation", only and parent_ok,
                           "a user-supplied callable must appear only as `identity::<fn(..) -> ..>(#callable)` so that it cannot capture generated locals")
    ctx.floor("C20.H.callables", "user-callable interpolations", n_call, 3)
    # with-paths of forwarded fields are paths, not closures (type fact)
    adts = {a["path"]: a for a in core["adts"]}
    ff = adts.get("darling_core::options::forwarded_field::ForwardedField")
    if ff:
        wty = [f["ty"] for f in ff["variants"][0]["fields"] if f["name"] == "with"]
        ctx.ob("C20.type.forwarded-with-is-path", "darling_core::options::forwarded_field::ForwardedField.with", "type", wty == ["core::option::Option<syn::path::Path>"], "%s" % wty)
    # ---------------------------------------------------------------- def-before-use of generated locals (F19)
    from .C02 import FN_BODY_TEMPLATES
    for key in FN_BODY_TEMPLATES:
        f = ctx.fn(key)
        if not f:
            continue
        T = tpl.Templates(f)
        for s in T.root_streams():
            toks = T.stream_tokens(s)
            comps = [(tk.expr or "") + " " + (tk.ty or "") for tk in toks if tk.kind == "interp"]
            if not any("declare_errors" in c or "ErrorDeclaration" in c for c in comps):
                continue
            # the field initialisers may read `__default` (DefaultExpression::Inherit): the template must declare it
            uses_inits = any("initializers(" in c or "field::Initializer" in c for c in comps)
            # `let __default` somewhere in what the template emits, wherever the piece is generated
            deep = T.render(s, follow=True)
            # (the name is Ident::new(DEFAULT_STRUCT_NAME): the declaration is recognised by `let <ident> : Self =`)
            declares_default = any(deep[i] == "let" and ("__default" in deep[i + 1:i + 3] or deep[i + 1:i + 5] == ["⟨proc_macro2::Ident⟩", ":", "Self", "="]) for i in range(len(deep) - 1))
            if uses_inits:
                pc = [sorted(d) for d in ctx.pc_strs(f, T.by_stream[s][0].blk)]
                ctx.ob("C20.H.default-declared-before-use", f.key, "fn-body template with field initialisers", declares_default,
                       "F19: field initialisers can read `__default` (a field inherits the container-level default) but this fn-body template never declares it; emitted under %s" % pc)
    # ---------------------------------------------------------------- trait uses are covered by emitted bounds
    # the templates name `<#ty as ::darling::FromMeta>` for every non-skipped field (from_none() in
    # the presence check even when `with` supplies the converter): the bound inference must walk the
    # type of every field it is asked about, unconditionally, and may leave out skipped fields only
    for rx, want in ((r"^<darling_core::codegen::field::Field<'_> as darling_core::usage::type_params::UsesTypeParams>::uses_type_params$",
                      "<syn::ty::Type as darling_core::usage::type_params::UsesTypeParams>::uses_type_params(self.ty, a2, a3)"),
                     (r"^<darling_core::codegen::variant::Variant<'_> as darling_core::usage::type_params::UsesTypeParams>::uses_type_params$",
                      "<darling_core::ast::data::Fields<T> as darling_core::usage::type_params::UsesTypeParams>::uses_type_params(self.data, a2, a3)")):
        cands = ctx.fns_matching(rx)
        if not cands:
            ctx.anchor_missing("C20.S.bounds-cover-trait-uses", rx, "walker not found")
            continue
        cs = resalg.cases(ctx, cands[0])
        ctx.ob("C20.S.bounds-cover-trait-uses", cands[0].key, "walks its type on every path", cs == [([], want)], "cases %s" % cs)
    f = ctx.fn("darling_core::codegen::trait_impl::TraitImpl::<'a>::used_type_params", required=False)
    if f:
        preds = common.callable_args_conditions(ctx, f, r"TraitImpl::<'a>::type_params_matching$", (1, 2)) or []
        ok = len(preds) == 2 and all(p == [{"elem.skip=False"}] for p in preds)
        if not preds:
            # the filters applied inside the walk instead of handed to it: one over fields, one over variants
            sf = common.skip_filters(ctx, f)
            preds = [d for k, d in sf]
            ok = sorted(k for k, d in sf) == ["field", "variant"] and all(d == [{"elem.skip=False"}] for k, d in sf)
        ctx.ob("C20.S.bounds-cover-trait-uses", f.key, "only skipped fields / variants are left out", ok, "filters keep an element under %s" % preds)
    # `unknown_field_with_alts(__other, &[#(#names),*])` type-checks only with at least one name (an empty
    # `&[]` has no element type): the template stands under "non-empty" of the very list it interpolates
    def _core(x):
        for _ in range(6):
            m_ = re.match(r"^(?:core::iter::traits::iterator::Iterator::(?:collect|peekable)|quote::__private::ext::Rep\w+::quote_into_iter|<[^()]* as quote::__private::ext::Rep\w+<'q>>::quote_into_iter|alloc::vec::Vec::<T, A>::as_slice|core::slice::<impl \[T\]>::iter)\((.*)\)(?:\.0)?$", x)
            if not m_:
                break
            x = m_.group(1)
        # (compare modulo auto-deref wrappers and the parentheses they leave behind)
        x = re.sub(r"<[^()]* as core::ops::deref::Deref(Mut)?>::deref(_mut)?", "", x)
        return x.replace("(", "").replace(")", "")
    n_alts = 0
    for key in (common.TOK % "from_meta_impl::FromMetaImpl<'_>", "darling_core::codegen::variant_data::FieldsGen::<'a>::core_loop"):
        f0 = ctx.fn(key)
        if not f0:
            continue
        seen_g = set()
        for g in ctx.generator_group(f0) + ctx.local_callees(f0, depth=2):
            if g.key in seen_g:
                continue
            seen_g.add(g.key)
            Tg = tpl.Templates(g)
            for s in Tg.by_stream:
                own = [tk for tk in Tg.by_stream[s] if tk.kind == "ident" and tk.text == "unknown_field_with_alts"]
                if not own:
                    continue
                reps = [tk for tk in Tg.stream_tokens(s) if tk.kind == "interp" and "RepInterp" in (tk.ty or "")]
                srcs = set()
                for tk in reps:
                    m_ = re.search(r"quote_into_iter\((.*)\)\)?\.0", tk.expr or "") or re.search(r"quote_into_iter\((.*)\)", tk.expr or "")
                    if m_:
                        inner = m_.group(1)
                        # cut at the matching parenthesis of quote_into_iter(
                        depth_, end = 0, len(inner)
                        for i_, ch in enumerate(inner):
                            if ch == "(":
                                depth_ += 1
                            elif ch == ")":
                                if depth_ == 0:
                                    end = i_
                                    break
                                depth_ -= 1
                        srcs.add(_core(inner[:end]))
                n_alts += 1
                pcs = ctx.pc_strs(g, own[0].blk)
                ok = bool(pcs) and bool(srcs)
                for d in pcs:
                    subj = set()
                    for a_ in d:
                        m1 = re.match(r"^len\((.*)\)=\('not-in', \(0,\)\)$", a_)
                        m2 = re.match(r"^is_some\(core::iter::adapters::peekable::Peekable::<I>::peek\((.*)\)\)=True$", a_)
                        if m1:
                            subj.add(_core(m1.group(1)))
                        if m2:
                            subj.add(_core(m2.group(1)))
                    ok = ok and bool(subj & srcs)
                ctx.ob("C20.G.alts-list-nonempty", g.key, "unknown_field_with_alts(.., &[names]) only with names", ok,
                       "the interpolated list is %s; the template stands under %s" % ([x[:120] for x in srcs], [[a_[:120] for a_ in sorted(d) if a_.startswith(("len(", "is_some("))] for d in pcs]))
    ctx.floor("C20.G.alts", "templates with a suggestion list", n_alts, 2)
    # `Default` is demanded of a field type only where the documentation says so (skipped fields)
    from .C01 import default_synthesis_rules
    default_synthesis_rules(ctx, "C20.S")
    # ---------------------------------------------------------------- filled ⇒ consumed (F16)
    from .C16 import magic_table
    consumers = {
        "from_attributes::FromAttributesOptions": ("from_attributes_impl::FromAttributesImpl<'a>", {"outer_from::OuterFrom"}),
        "from_derive::FdiOptions": ("from_derive_impl::FromDeriveInputImpl<'a>", {"outer_from::OuterFrom", "from_derive::FdiOptions"}),
        "from_field::FromFieldOptions": ("from_field::FromFieldImpl<'a>", {"outer_from::OuterFrom", "from_field::FromFieldOptions"}),
        "from_variant::FromVariantOptions": ("from_variant_impl::FromVariantImpl<'a>", {"outer_from::OuterFrom", "from_variant::FromVariantOptions"}),
        "from_type_param::FromTypeParamOptions": ("from_type_param::FromTypeParamImpl<'a>", {"outer_from::OuterFrom", "from_type_param::FromTypeParamOptions"}),
    }
    for opts, (impl, chains) in consumers.items():
        filled = {}
        for ch in chains:
            tab, _ = magic_table(ctx, ch)
            for name, slot in tab.items():
                filled[name] = (ch, slot)
        fr = ctx.fns_matching(r"From<&'a darling_core::options::%s> for darling_core::codegen::%s>::from$" % (re.escape(opts), re.escape(impl)))
        if not fr:
            ctx.anchor_missing("C20.S.magic-slot-consumed", "From<&%s> for %s" % (opts, impl), "conversion not found")
            continue
        f = fr[0]
        read = set()
        for blk, i, st in f.stmts():
            r = st.get("r", {})
            for p in [r.get("p")] + [o.get("p") for o in [r.get("op")] + (r.get("ops") or []) if isinstance(o, dict)]:
                if p:
                    names = [e["name"] for e in p["proj"] if e["k"] == "field"]
                    read |= set(names)
        for blk, t in f.calls():
            for a in t["args"]:
                if a["k"] in ("copy", "move"):
                    read |= {e["name"] for e in a["p"]["proj"] if e["k"] == "field"}
            c = mir.callee_of(t) or ""
            if c.endswith("OuterFrom::as_forward_attrs"):
                read.add("attrs")
        for name, (ch, slot) in sorted(filled.items()):
            ok = slot in read
            ctx.ob("C20.S.magic-slot-consumed", f.key, "magic field `%s`" % name, ok,
                   ("F16: " if name == "ident" and "FromAttributes" in opts else "") + "%s::parse_field swallows a field named `%s` into self.%s, but the conversion to %s never reads it: the receiver's field is left uninitialised (E0063)" % (ch, name, slot, impl))
    # ---------------------------------------------------------------- [B] corpus
    from . import corpus
    corpus.check_corpus(ctx)
    if ctx.tier == "thorough":
        from . import witness
        witness.run_witnesses(ctx, "C20")
    return ctx.finish(
        explanation="Path closure over %d distinct absolute template paths against the facade's public items, hygiene of %d template binders, coercion of %d user-callable interpolations, sibling template and slot rules; corpus type-check." % (len(distinct), binders_seen, n_call),
        assumptions=["the corpus quantifies over the option space of tools/gen_corpus.py, not over all declarations", "user field types meet the documented trait bounds"],
    )

"""C09 – derived enum receivers select exactly one declared, non-skipped variant.

Decided: snake_case default only for enums, variant effective-name and allow_unknown_fields
inheritance guards (G); the bare-word variant is picked only among non-skipped `word` variants
(G, F20); nothing is emitted for a skipped variant and each arm shape is emitted only for its
own variant style (G on templates); the struct-variant arm parses its list before it declares
its accumulator and locates errors under the variant name; arm set vs. suggestion candidates
(S, F9); struct-variant arm vs. struct body components (S, F18); [B] arity switch, dispatch
constants and the Meta::Path guard in every derived enum of the population.
Not decided: 'nothing else selects a variant' beyond the finite string switch recovered from MIR."""
import re

from vlib import mir, scan, tpl, derived
from . import common

META = dict(
    level="emission conditions of every enum arm template and the options-layer guards are decided for all enum receivers; arity/dispatch shape is decided per derived enum of the population",
    technique="static analysis: path-condition guards on generator templates, sibling-generator agreement, switch recovery on derived MIR",
)


def run(ctx):
    core = ctx.core("on")
    # ------------------------------------------------------------ options layer
    f = ctx.fn("darling_core::options::core::Core::start")
    if f:
        # the case table of `start` (helpers, public or not, read by their definition): the container's
        # default case rule is snake_case for an enum and the default rule for everything else
        from vlib import resalg
        rows = [(c, v) for c, v in resalg.cases(ctx, f, deep=True) if v.startswith("core::result::Result::Ok{")]
        SN, DF = "ident_case::RenameRule::SnakeCase", "<ident_case::RenameRule as core::default::Default>::default()"
        en = [(c, v) for c, v in rows if "discr(a1.data)=Enum" in c]
        oth = [(c, v) for c, v in rows if "discr(a1.data)=Enum" not in c]
        ctx.ob("C09.G.snake-case-shape", f.key, "Ok cases for enums and for other bodies", bool(en) and bool(oth), "%d enum cases, %d others" % (len(en), len(oth)))
        ctx.ob("C09.G.snake-case-only-for-enums", f.key, "RenameRule::SnakeCase", all(SN in v and DF not in v for c, v in en) and all(SN not in v for c, v in oth),
               "enum cases %s; other cases %s" % ([c for c, v in en], [c for c, v in oth]))
        ok = bool(oth) and all(DF in v for c, v in oth) and all(any(re.match(r"^discr\(a1\.data\)=(Struct|\('not-in', \('Enum'.*)$", a) for a in c) for c, v in oth)
        ctx.ob("C09.G.default-rule-otherwise", f.key, "default rule for non-enums", ok, "other cases %s" % [(c, DF in v) for c, v in oth])
    f = ctx.fn("darling_core::options::input_variant::InputVariant::with_inherited")
    if f:
        ren = ctx.find_calls_deep(f, r"^ident_case::RenameRule::apply_to_", helpers=1)
        ctx.ob("C09.G.variant-rule-callee", f.key, "rename call", [mir.callee_of(t) for _, t, _ in ren] == ["ident_case::RenameRule::apply_to_variant"], "%s" % [mir.callee_of(t) for _, t, _ in ren])
        # (the container may be handed over as `&Core` or as `Option<&Core>` unwrapped on the way)
        PARENT = r"(?:a2|\(a2 as Some\)\.0|parent)"
        common.inherit_when_absent(ctx, "C09.G.explicit-name-wins", "C09.G.variant-name-value", f, "attr_name",
                                   r"Some\{ident_case::RenameRule::apply_to_variant\(" + PARENT + r"(?:\.|__)rename_rule, <T as alloc::string::ToString>::to_string\((?:self(?:\.|__))?ident\)\)\}$")
        common.inherit_when_absent(ctx, "C09.G.unknown-fields-inherited", "C09.G.unknown-fields-value", f, "allow_unknown_fields",
                                   r"Some\{unwrap_or_default\(" + PARENT + r"(?:\.|__)allow_unknown_fields\)\}$")
    # the bare-word variant: word = Some(true) and not skipped
    f = ctx.fn("darling_core::options::from_meta::FromMetaOptions::from_word")
    if f:
        reads = set()
        finds = 0
        # (the search may sit in from_word itself or in a private helper it calls)
        helpers_ = [h for h in ctx.local_callees(f, depth=1) if str(h.raw.get("vis", "")).startswith("Restricted")]
        todo = ctx.closures_of(f) + [c for h in helpers_ for c in ctx.closures_of(h)]
        allc = []
        while todo:
            c = todo.pop()
            allc.append(c)
            todo.extend(ctx.closures_of(c))
        pred = None
        finds = len(ctx.find_calls_deep(f, r"Iterator(>)?::find$", helpers=1))
        for c in allc:
            rd = field_reads(c)
            if "word" in rd:
                pred = c
                reads = rd
        ctx.ob("C09.G.word-variant-shape", f.key, "find(|v| …word…)", finds == 1 and pred is not None, "%d find calls; predicate closure %s" % (finds, pred.key if pred else None))
        if pred is not None:
            rs = ctx.ret_values(pred)
            # the predicate must look at the *value* of `word` (word = false is not a word variant), not at its presence
            val = bool(rs) and all(re.search(r"unwrap_or(_default)?\(.*\.word", e) is not None or re.search(r"\(.*\.word as Some\)\.0", e) is not None for e in rs) and not any(re.match(r"^!?is_some\(", e) for e in rs)
            inner_ok = True
            for c2 in ctx.closures_of(pred):
                r2 = ctx.ret_values(c2)
                inner_ok = inner_ok and r2 == ["a2"]
            if not (val and inner_ok):
                # the same test written as a pattern: `matches!(v.word, Some(w) if *w)`
                tc = ctx.true_conditions(pred)
                pat_ok = len(tc) == 1 and any(re.match(r"^is_some\(\(?a2\)?\.word\)=True$", a) for a in tc[0]) and any(re.match(r"^\(\(?a2\)?\.word as Some\)\.0(\.value)?=True$", a) for a in tc[0]) and len(tc[0]) == 2
                val, inner_ok = pat_ok, pat_ok
            ctx.ob("C09.G.word-variant-by-value", f.key, "bare-word variant predicate tests the boolean value of `word`", val and inner_ok,
                   "predicate returns %s (inner closures %s): a variant with `word = false` must not become the bare-word value" % (rs, [ctx.ret_values(c2) for c2 in ctx.closures_of(pred)]))
        ctx.ob("C09.G.word-variant-not-skipped", f.key, "bare-word variant predicate reads `skip`", "skip" in reads,
               "F20: the predicate selecting the bare-word variant reads only %s of the variant: a variant marked `skip` and `word` becomes the bare-word value" % sorted(reads))
    # ------------------------------------------------------------ arm templates
    for name, arms in (("variant::UnitMatchArm<'_>", {"unit": r"^discr\(self\.0\.data\.style\)=Unit$", "newtype": r"is_newtype\(self\.0\.data\)=True"}),
                       ("variant::DataMatchArm<'_>", {"unit": r"^discr\(self\.0\.data\.style\)=Unit$", "struct": r"^discr\(self\.0\.data\.style\)=Struct$", "newtype": r"is_newtype\(self\.0\.data\)=True"})):
        f = ctx.fn(common.TOK % name)
        if not f:
            continue
        n = 0
        shapes = {}
        # the arm generator and the private helpers it may have been cut into (a helper with one
        # call site stands under the conditions of that call)
        for g in ctx.generator_group(f):
            T = tpl.Templates(g)
            for tk in T.events:
                n += 1
                pcs = ctx.pc_strs(g, tk.blk)
                ok = bool(pcs) and all(ctx._sat(d, r"self\.0\.skip=False") for d in pcs)
                if not ok:
                    ctx.ob("C09.G.skipped-variant-emits-nothing", g.key, "token %s" % tk, False, "emitted under %s" % [sorted(d) for d in pcs])
            # arm shapes per style
            for s in T.by_stream:
                if T.by_stream[s][0].kind == "append":
                    continue
                txt = T.text(s)
                if not txt.startswith("⟨str⟩ =>"):
                    continue
                # one arm template per style, or one shared `#name => { #body }` whose body is chosen
                # per style: each choice stands under the conditions of the place that makes it
                for toks_, sites_ in T.instances(s):
                    pcs = [set()]
                    for b_ in (T.by_stream[s][0].blk,) + tuple(sites_):
                        pcs = [x | set(y) for x in pcs for y in (ctx.pc_strs(g, b_) or [set()])]
                    pcs = [d for d in pcs if common.consistent(d)]
                    shapes[" ".join(toks_)] = pcs
        ctx.ob("C09.G.skipped-variant-emits-nothing", f.key, "all %d template events" % n, n > 10, "every template event of the arm generator is guarded by skip = false")
        for txt, pcs in shapes.items():
            kind = None
            if re.search(r"=> (\{ if let :: darling :: export :: syn :: Meta :: Path \( _ \) = \* __nested \{ )?:: darling :: export :: Ok \( ⟨proc_macro2::Ident⟩ :: ⟨proc_macro2::Ident⟩ \)", txt):
                kind = "unit"
            elif "from_none ( )" in txt or "FromMeta :: from_meta ( __nested )" in txt:
                kind = "newtype"
            elif "parse_meta_list" in txt:
                kind = "struct"
            elif name.startswith("variant::UnitMatchArm") and (txt.endswith("=> ⟨proc_macro2::TokenStream⟩ ,") or txt.endswith('=> :: darling :: export :: Err ( :: darling :: Error :: unsupported_format ( "literal" ) ) ,')):
                kind = "other"
            NEWTYPE = lambda d: ctx._sat(d, r"is_newtype\(self\.0\.data\)=True") or (ctx._sat(d, r"^discr\(self\.0\.data\.style\)=Tuple$") and ctx._sat(d, r"len\(self\.0\.data(\.fields)?\)=1$"))
            NOT_NEWTYPE = lambda d: ctx._sat(d, r"is_newtype\(self\.0\.data\)=False") or ctx._sat(d, r"^discr\(self\.0\.data\.style\)=Struct$") or \
                (ctx._sat(d, r"^discr\(self\.0\.data\.style\)=Tuple$") and ctx._sat(d, ("ne", r"len\(self\.0\.data(\.fields)?\)$", 1)))
            if kind == "newtype" and kind in arms:
                # (is_newtype, or its definition: a tuple body with exactly one field)
                ctx.ob("C09.G.arm-for-own-style", f.key, "%s arm" % kind, bool(pcs) and all(NEWTYPE(d) for d in pcs), "%s arm emitted under %s" % (kind, [sorted(d) for d in pcs]))
            elif kind in arms:
                ctx.ob("C09.G.arm-for-own-style", f.key, "%s arm" % kind, bool(pcs) and all(ctx._sat(d, arms[kind]) for d in pcs), "%s arm emitted under %s" % (kind, [sorted(d) for d in pcs]))
            elif kind == "other":
                ok = all(ctx._sat(d, ("ne", r"^discr\(self\.0\.data\.style\)$", "Unit")) and NOT_NEWTYPE(d) for d in pcs)
                ctx.ob("C09.G.arm-for-own-style", f.key, "non-unit non-newtype string arm rejects", ok, "under %s" % [sorted(d) for d in pcs])
            else:
                ctx.ob("C09.G.arm-for-own-style", f.key, "unrecognised arm", False, txt[:200])
        if name.startswith("variant::DataMatchArm"):
            st = [t for t in shapes if "parse_meta_list" in t]
            if st:
                txt = st[0]
                ok = bool(re.search(r"let __items = :: darling :: export :: NestedMeta :: parse_meta_list \( __data \. tokens \. clone \( \) \) \? ; let __items = & __items ; ⟨darling_core::codegen::error::ErrorDeclaration⟩", txt))
                ctx.ob("C09.H.parse-before-accumulator", f.key, "struct arm", ok, "the `?` on the variant's own list must precede the accumulator declaration: %s" % txt[:300])
                ok = bool(re.search(r"if let :: darling :: export :: syn :: Meta :: List \( ref __data \) = \* __nested \{", txt)) and 'unsupported_format ( "non-list" )' in txt
                ctx.ob("C09.H.struct-arm-needs-list", f.key, "struct arm", ok, txt[:200])
            wl = [(g, t) for g in ctx.generator_group(f) for _, t in ctx.find_calls(g, r"ErrorCheck::<'a>::with_location$|ErrorCheck::<'_>::with_location$|ErrorCheck.*::with_location$")]
            ok = len(wl) == 1 and "self.0.name_in_attr" in ctx.expr(wl[0][0], wl[0][1]["args"][0])
            ctx.ob("C09.G.struct-arm-located", f.key, "ErrorCheck::with_location(name_in_attr)", ok, "%s" % [ctx.expr(g, t["args"][0])[:120] for g, t in wl])
            nt = [t for t in shapes if "FromMeta :: from_meta ( __nested )" in t]
            ok = bool(nt) and ". map_err ( | e | e . at ( ⟨str⟩ ) ) ?" in nt[0]
            ctx.ob("C09.H.newtype-arm-located", f.key, "newtype arm adds .at(name)", ok, (nt[0] if nt else "")[:260])
            un = [t for t in shapes if "Meta :: Path ( _ )" in t]
            ok = bool(un) and 'unsupported_format ( "non-path" )' in un[0]
            ctx.ob("C09.H.unit-arm-needs-path", f.key, "unit arm accepts only a bare path", ok, (un[0] if un else "")[:260])
    # ErrorCheck with a location maps the error through .at(location)
    f = ctx.fn(common.TOK % "error::ErrorCheck<'_>")
    if f:
        ok = None
        # the piece may be built in the generator or in a closure handed to `self.location.map(..)`
        for g_ in [f] + ctx._closures_deep(f):
            T = tpl.Templates(g_)
            for s in T.by_stream:
                txt = T.text(s)
                own = [tk.text for tk in T.by_stream[s] if tk.kind == "ident"]
                if "map_err" in own and ". map_err ( | e | e . at (" in txt:
                    here = all(ctx._sat(d, r"is_some\(self\.location\)=True") for d in ctx.pc_strs(g_, T.by_stream[s][0].blk))
                    ok = here if ok is None else (ok and here)
                elif "finish" in own and "__errors . finish ( ) ?" in txt:
                    # the unlocated finish written out as a template of its own: only without a location
                    here = all(ctx._sat(d, r"is_some\(self\.location\)=False") for d in ctx.pc_strs(g_, T.by_stream[s][0].blk))
                    ok = here if ok is None else (ok and here)
        ok = bool(ok)
        ctx.ob("C09.G.error-check-location", f.key, ".map_err(|e| e.at(location)) iff location", ok, "located finish")
    # ------------------------------------------------------------ enum fn-body template
    f = ctx.fn(common.TOK % "from_meta_impl::FromMetaImpl<'_>")
    if f:
        T = tpl.Templates(f)
        en = None
        for s in T.root_streams():
            if all(ctx._sat(d, r"discr\(self\.base\.data\)=Enum") for d in ctx.pc_strs(f, T.by_stream[s][0].blk)) and "fn from_list" in T.text(s):
                en = s
        ctx.ob("C09.H.enum-template", f.key, "enum fn-body template", en is not None, "template emitted under data = Enum")
        if en is not None:
            txt = T.text(en)
            # `match __outer.len() { 0, 1, _ }` or slice patterns `[]`, `[one]`, `_` (the derived
            # instances are checked on their MIR by the C09.B rules either way)
            A1 = r"match __outer \. len \( \) \{ 0 => :: darling :: export :: Err \( :: darling :: Error :: too_few_items \( 1 \) \) , 1 => .* _ => :: darling :: export :: Err \( :: darling :: Error :: too_many_items \( 1 \) \) , \}"
            A2 = r"match \*? ?__outer \{ \[ \] => :: darling :: export :: Err \( :: darling :: Error :: too_few_items \( 1 \) \) , \[ .*? \] => .* _ => :: darling :: export :: Err \( :: darling :: Error :: too_many_items \( 1 \) \) ,? \}"
            ok = bool(re.search(A1, txt)) or bool(re.search(A2, txt))
            ctx.ob("C09.H.arity-match", f.key, "0 => too_few_items(1), 1 => dispatch, _ => too_many_items(1)", ok, txt[:400])
            ok = bool(re.search(r"match :: darling :: util :: path_to_string \( __nested \. path \( \) \) \. as_ref \( \) \{ ⟨quote::__private::RepInterp<darling_core::codegen::variant::DataMatchArm<'_>>⟩ __other => :: darling :: export :: Err \(", txt))
            ctx.ob("C09.H.dispatch-on-variant-name", f.key, "match path_to_string(__nested.path()) { #(#data_variants)* __other => Err }", ok, "dispatch")
            ok = bool(re.search(r"fn from_string \( lit : & str \) -> :: darling :: Result < Self > \{ match lit \{ ⟨quote::__private::RepInterp<darling_core::codegen::variant::UnitMatchArm<'_>>⟩ __other => :: darling :: export :: Err \( :: darling :: Error :: unknown_value \( __other \) \) \}", txt))
            ctx.ob("C09.H.from-string-match", f.key, "match lit { #(#unit_arms)* __other => Err(unknown_value) }", ok, "from_string")
    # S: struct-variant arm vs struct body: flatten hand-off (F18)
    a = ctx.fn("darling_core::codegen::trait_impl::TraitImpl::<'a>::require_fields")
    bfn = ctx.fn("darling_core::codegen::variant_data::FieldsGen::<'a>::require_fields")
    if a and bfn:
        def has_handoff(fn):
            return bool(ctx.find_calls_deep(fn, r"Field::<'a>::as_flatten_initializer$|as_flatten_initializer$", helpers=1))
        loop = ctx.fn("darling_core::codegen::variant_data::FieldsGen::<'a>::core_loop")
        buffers = loop is not None and any(tk.text == "__flatten" for g_ in ctx.generator_group(loop) for tk in tpl.Templates(g_).all_tokens(("ident",)))
        ctx.ob("C09.S.struct-body-hands-off-flatten", a.key, "flatten hand-off", has_handoff(a), "TraitImpl::require_fields must emit the flatten initialiser")
        ctx.ob("C09.S.variant-arm-hands-off-flatten", bfn.key, "flatten hand-off", has_handoff(bfn) or not buffers,
               "F18: the struct-variant arm shares core_loop (which buffers unknown items in __flatten) but FieldsGen::require_fields never emits the flatten initialiser: a `flatten` field of a struct variant is reported missing")
    # ------------------------------------------------------------ [B]
    pop = [b for b in derived.population(ctx) if b.key.endswith("::from_list") and b.local_ty(1).startswith("&[darling_core::ast::data::NestedMeta]")]
    n_enum = 0
    for b in pop:
        D = derived.DerivedFn(b)
        few = D.calls_to(r"^darling_core::error::Error::too_few_items$")
        many = D.calls_to(r"^darling_core::error::Error::too_many_items$")
        if not few and not many:
            continue
        n_enum += 1
        ok = len(few) == 1 and len(many) == 1
        ctx.ob("C09.B.arity-shape", b.key, "too_few / too_many", ok, "%d/%d" % (len(few), len(many)))
        if not ok:
            continue
        ctx.requires("C09.B.zero-items", b, few[0][0], "too_few_items", [r"^len\(a1\)=0$"])
        ctx.requires("C09.B.many-items", b, many[0][0], "too_many_items", [("ne", r"^len\(a1\)$", 0), ("ne", r"^len\(a1\)$", 1)])
        ctx.ob("C09.B.arity-constants", b.key, "min/max = 1", ctx.expr(b, few[0][1]["args"][0]) == "1_usize" and ctx.expr(b, many[0][1]["args"][0]) == "1_usize", "%s / %s" % (ctx.expr(b, few[0][1]["args"][0]), ctx.expr(b, many[0][1]["args"][0])))
        for blk, c, sw, tt, ft, lhs in D.name_tests:
            if "path_to_string" in lhs and re.search(r"a1\[0?\]", lhs):
                ctx.requires("C09.B.dispatch-under-one-item", b, blk, "variant name test %r" % c, [r"^len\(a1\)=1$"])
        # unit variants: Ok(Enum::V) directly under a name test requires Meta::Path
        for blk, st in D.ok_blocks:
            e = D.expr(st["r"]["ops"][0])
            if re.match(r"^[\w:<>, ]+\{\}$", e) and not e.startswith("core::"):
                conds = D.conds(blk)
                ok = bool(conds) and all(any(re.search(r"^discr\(\(a1\[0?\] as Meta\)\.0\)=Path$", a) for a in d) for d in conds)
                ctx.ob("C09.B.unit-variant-needs-path", b.key, "Ok(%s)" % e, ok, "unit variant result must be guarded by Meta::Path")
    ctx.floor("C09.B", "derived enum from_list fns", n_enum, 12)
    if ctx.tier == "thorough":
        from . import corpus
        n_tab = corpus.name_table_rules(ctx, "C09", "enum")
        ctx.floor("C09.N", "corpus enums with a recovered dispatch table", n_tab, 60)
    return ctx.finish(
        explanation="Guards of the options layer, emission conditions and shapes of the unit/data arm templates and the enum fn-body template, sibling agreement rules, and arity/dispatch rules over %d derived enums." % n_enum,
        assumptions=["[B] quantifies over the enums in tests/ and examples/ (plus the corpus in thorough)"],
    )


def field_reads(body):
    out = set()
    for blk, i, st in body.stmts():
        r = st.get("r", {})
        places = []
        if r.get("k") == "use" and r["op"]["k"] in ("copy", "move"):
            places.append(r["op"]["p"])
        if r.get("k") in ("ref", "discr"):
            places.append(r["p"])
        for p in places:
            for e in p["proj"]:
                if e["k"] == "field":
                    out.add(e["name"])
    for blk, t in body.calls():
        for a in t["args"]:
            if a["k"] in ("copy", "move"):
                for e in a["p"]["proj"]:
                    if e["k"] == "field":
                        out.add(e["name"])
    return out
